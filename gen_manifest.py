#!/usr/bin/env python3
"""Regenerates MANIFEST.json (kept in one place so that the N/A reasons and check entries stay consistent)."""
import json, os, subprocess
HERE = os.path.dirname(os.path.abspath(__file__))

NA = {
 "C01": "Pure function of (fitted model, X'): whether transform infers its width from the batch depends only on which column ids are absent from the input; no schedule, fault, clock or history to simulate. (A width inferred from the batch is incidentally visible to C12's batch-history oracle.)",
 "C02": "Equality of two call paths on one input; no schedule, fault or history. memory_size selects the disk-backed path but is an ordinary configuration input here; that path runs under faults in C13 and under knob changes in C12.",
 "C03": "Definition of a matrix from a corpus; the timed vectorizer's timestamps are input data, not a clock the code reads, so there is nothing for a simulated clock or scheduler to drive.",
 "C05": "Pure set arithmetic over token counts; the delicate case (float rounding of count/total) is a bounded enumeration of inputs, not a simulation target.",
 "C06": "Exact counting and a pure merge of two fitted models; no shared state, schedule or fault.",
 "C07": "LP optimality/feasibility of one network-simplex call; inputs are the only quantifier.",
 "C08": "Invariance relations between inputs (scale/pad/permute/split); its only knob clause (memory_size / chunk size at transform time) is the same statement as C12's block/chunk independence and is decided there.",
 "C09": "Lossless coding is a pure function of the string list; the one parallel loop on its path (bpe_encode_all) is a C12 target under the simulated prange.",
 "C10": "Defined as a differential execution (bounds-checked/interpreted vs compiled) of single calls over inputs: that is differential testing, not simulation. Kernel IndexErrors seen in interp-mode runs are counted in the C04/C12/C13 evidence as a by-product.",
 "C11": "The EM/epsilon procedure is a pure function of the n_iter=0 matrix and the corpus; its n_threads dimension is exactly C04's invariance, whose workload covers n_iter 0-3 and epsilon>0 under the simulated scheduler.",
 "C14": "Masking semantics of a single fit: pure function of input and configuration.",
 "C15": "Walk counting on trees: single-call numerics on one input.",
 "C16": "LZ parse of one string; random_state only seeds a hash (a pure function of the seed).",
 "C17": "KL identity and a fixed diagonal scaling; the fit-time prange writes disjoint weights[i] and the property makes no schedule claim.",
 "C18": "Scalar functions of two or three vectors; inputs only.",
 "C19": "Window arithmetic on one sequence; inputs and configurations only.",
 "C20": "Bin partition / KDE of one sequence; inputs and configurations only.",
}

CHECKS = {
 "C04": {
  "design_ref": "DESIGN.md section 4",
  "technique": "deterministic simulation: seeded schedules of the co-occurrence build tasks under a simulated dask scheduler (baton-passing threads), knob/fault randomisation of buffer size, sort threshold and pool size, dict reference model of the accumulator, event-log conservation oracle; seeded search with tape minimisation and replay",
  "text": "Seeded exploration. The accumulator (coo_utils) is driven against a dict model after every append across drawn capacities (from the estimators' own sizing), thresholds (drawn in interp mode, guarded hook and the real 65536 in jit mode) and stream shapes; the whole build pipeline of the four sequence co-occurrence vectorizers runs under a simulator that replaces dask's scheduler and decides pool size, start order and every line-level interleaving, and is compared with the reference configuration and with the log of events the kernels emitted. Exploration is the right level: the property quantifies over schedules, knobs and volumes jointly, which no bounded enumeration covers.",
  "note": "Trusted: CPython tracing (sys.settrace) as pre-emption mechanism, numpy/scipy sparse arithmetic, the reference configuration (n_threads=1, 1 GiB, no simulator). Interp mode assumes compiled code does what the source says; native races between nogil kernels are out of reach.",
 },
 "C12": {
  "design_ref": "DESIGN.md section 5",
  "technique": "deterministic simulation: seeded histories of transform calls (batch splits, permutations, duplicates, block/chunk knob changes) on one fitted estimator against a per-item memo model, with numba.prange loops outlined and run as simulated worker threads under a seeded scheduler",
  "text": "Seeded exploration of batch histories per fitted estimator: every produced row is compared with the memo of the same item from any earlier batching; block/chunk sizes are changed between calls; in interp mode every prange loop on the transform path is executed by simulated workers whose partition and interleaving come from the seed.",
  "note": "Trusted: the AST outliner for prange (validated against the un-rewritten function under the trivial schedule), numpy. jit-mode runs use real numba threads and are evidence for block/chunk independence only, not for schedules.",
 },
 "C13": {
  "design_ref": "DESIGN.md section 6",
  "technique": "deterministic simulation with fault injection: seeded operation histories (fit / transform / refit on other data) with injected I/O errors on the scratch-file seam, failing and short readers, invalid items in later blocks or documents, mid-call cancellation, failure of one chunk task, perturbed randomness / schedule / hash seed; oracles: deep input/parameter snapshots (also of held fit inputs), process-global state (dask configuration, leaked threads), sandbox temp-dir listing, pristine-twin memo of outputs, same-seed-same-model",
  "text": "Seeded exploration of call histories per estimator (21 estimator classes) with at most one fault per operation: ENOSPC/EIO/EACCES at the k-th scratch-file operation, readers that raise or end early, invalid distributions / tokens in a later block or document, cancellation at the n-th traced line, MemoryError in one chunk task of a multi-threaded call. After every operation, returned or raised: inputs and parameter objects unchanged, sandbox temp directory unchanged, outputs equal the pristine twin's single-call output, same-seed refits equal under perturbed global RNG / schedule.",
  "note": "Trusted: the snapshot/compare code, the fault-injecting wrappers around tempfile.mkdtemp / np.memmap / os.remove as seen from the library, sys.settrace for cancellation. Torn writes, process crashes and allocator failures are not injected (no contract in this library).",
 },
}

def main():
    claimed = [p for p in ("C04", "C12", "C13") if os.environ.get("CLAIM_" + p, "1") == "1" and p in json.load(open(os.path.join(HERE, "claimed.json")))]
    hook_commit = json.load(open(os.path.join(HERE, "claimed.json"))).get("_hook_commits", [])
    m = {
     "version": 1,
     "setup_cmd": "/venv/bin/python /verif/setup_check.py",
     "hooks": {
       "guard": "VECTORIZERS_VERIF",
       "enable": "VECTORIZERS_VERIF=1 VECTORIZERS_VERIF_COO_QUICKSORT_LIMIT=<n> in the environment of jit-mode worker processes (set by dsim.runner.env_for); nothing is built",
       "baseline_off_cmd": "cd /repo && env -u VECTORIZERS_VERIF /venv/bin/python -m pytest -ra -q -p no:cacheprovider --timeout=900 --continue-on-collection-errors",
       "source_commits": hook_commit,
       "add_only": True,
     },
     "engines": [{"name": "dsim", "path": "/verif/dsim", "serves_properties": claimed,
                  "kind_free_text": "deterministic simulator: choice tape, baton-passing thread scheduler over sys.settrace, dask scheduler seam, prange outliner, fs/reader fault seams, tape minimiser, replay"}],
     "checks": [],
     "not_applicable": [{"property_id": k, "reason": v} for k, v in sorted(NA.items())],
     "notes": "Technique: deterministic simulation with fault injection. 17 of 20 properties are pure functions of their input and are listed not_applicable with reasons (DESIGN.md sections 2 and 7). known findings / fixed entries: /verif/known_findings.json.",
    }
    for p in claimed:
        c = CHECKS[p]
        m["checks"].append({
          "property_id": p,
          "quick_cmd": f"/verif/check {p} --tier quick",
          "thorough_cmd": f"/verif/check {p} --tier thorough",
          "evidence_file": f"/verif/evidence/{p}.json",
          "replay_cmd_template": "/verif/check replay {path}",
          "engine": "dsim",
          "level_claimed": {"category": "exploration", "text": c["text"], "design_ref": c["design_ref"]},
          "level_note": c["note"],
          "technique": c["technique"],
        })
    for p in ("C04", "C12", "C13"):
        if p not in claimed:
            m["not_applicable"].append({"property_id": p, "reason": "not claimed yet: the check for this property is still under construction in this tree (applicable; see DESIGN.md)"})
    json.dump(m, open(os.path.join(HERE, "MANIFEST.json"), "w"), indent=1)
    print("claimed", claimed)

main()
