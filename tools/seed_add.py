#!/usr/bin/env python3
"""Confirm a seeded change in a scratch worktree and store it under /verif/seeded/<id>/.

usage: seed_add.py <id> <property> <srcdir with patch.diff demo.py notes.md> "<pytest selection args>"
Confirms: demo passes on pristine HEAD, patch applies, demo fails with the patch, the selected existing tests pass with the patch.
"""
import json, os, shutil, subprocess, sys, time
sid, prop, src, tests = sys.argv[1:5]
wt = f"/tmp/wt-confirm-{sid}"
subprocess.run(["git", "-C", "/repo", "worktree", "remove", "--force", wt], capture_output=True)
subprocess.run(["git", "-C", "/repo", "worktree", "add", "-q", "--detach", wt, "HEAD"], check=True)
env = dict(os.environ, PYTHONPATH=wt, PYTHONDONTWRITEBYTECODE="1", NUMBA_CACHE_DIR=f"/dev/shm/nc-{sid}")
ran = []
def run(cmd, **kw):
    t = time.time(); r = subprocess.run(cmd, cwd=wt, env=env, capture_output=True, text=True, **kw)
    ran.append({"cmd": " ".join(cmd), "rc": r.returncode, "s": round(time.time() - t, 1), "tail": (r.stdout + r.stderr)[-300:]})
    return r
try:
    demo = os.path.join(src, "demo.py")
    r0 = run(["/venv/bin/python", demo])
    ap = run(["git", "apply", os.path.join(src, "patch.diff")])
    r1 = run(["/venv/bin/python", demo])
    rt = run(["/venv/bin/python", "-m", "pytest", "-q", "-p", "no:cacheprovider", "-x"] + tests.split())
    ok = r0.returncode == 0 and ap.returncode == 0 and r1.returncode != 0 and rt.returncode == 0
    head = subprocess.run(["git", "-C", "/repo", "rev-parse", "--short", "HEAD"], capture_output=True, text=True).stdout.strip()
    print("demo pristine rc", r0.returncode, "| apply rc", ap.returncode, "| demo patched rc", r1.returncode, "| tests rc", rt.returncode, rt.stdout.strip().splitlines()[-1:] )
    if not ok:
        for x in ran: print(x)
        sys.exit(1)
    dst = f"/verif/seeded/{sid}"
    os.makedirs(dst, exist_ok=True)
    for f in ("patch.diff", "demo.py", "notes.md"):
        if os.path.exists(os.path.join(src, f)):
            shutil.copy(os.path.join(src, f), os.path.join(dst, f))
    notes = open(os.path.join(src, "notes.md")).read() if os.path.exists(os.path.join(src, "notes.md")) else ""
    meta = {"id": sid, "property": prop, "base_commit": head, "source": "independent sub-agent given only the property text and a scratch worktree",
            "needs_to_manifest": notes[:1500], "confirmed": ran, "caught_by": None}
    json.dump(meta, open(os.path.join(dst, "meta.json"), "w"), indent=1)
    print("stored", dst)
finally:
    subprocess.run(["git", "-C", "/repo", "worktree", "remove", "--force", wt], capture_output=True)
    shutil.rmtree(f"/dev/shm/nc-{sid}", ignore_errors=True)
