#!/bin/sh
# runs the three quick checks under several base seeds; prints one line per run (used via `vp run` to shake out seed-dependent false alarms)
for seed in ${SEEDS:-1 2 3 5}; do
  for p in C04 C12 C13; do
    VERIF_SEED=$seed VERIF_EVIDENCE_DIR=/dev/shm/sweep-evidence ./check $p --tier quick > /dev/shm/sweep-$p-$seed.log 2>&1
    echo "seed=$seed $p rc=$? $(grep -c '^VIOLATION' /dev/shm/sweep-$p-$seed.log) violations; $(grep 'HARNESS-ERROR' /dev/shm/sweep-$p-$seed.log | head -2 | cut -c1-200)"
    grep "violation class" /dev/shm/sweep-$p-$seed.log | cut -c1-400
  done
done
