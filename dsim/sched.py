"""Baton-passing scheduler: real threads, one runnable at a time, the tape decides who.

A simulated task is a real ``threading.Thread`` that only executes while it
holds the baton.  ``sys.settrace`` is installed in every simulated thread;
frames whose code lies under one of ``roots`` (the tree being checked) get a
local trace function and every ``line`` event there is a potential pre-emption
point; all other frames (numpy, scipy, dask, numba runtime, compiled kernels)
are atomic.  The controller -- the thread that called ``run_graph`` -- draws
every decision from the tape: which ready task to start (bounded by the pool
size), which running thread to step next, and for how many line events.

Exactly one thread runs at any instant, so a run is a total order of line
events; ``digest`` hashes the sequence of slices (thread, #events, last line).
"""
import hashlib
import os
import sys
import threading
import time


_tls = threading.local()
_TOOL = 3  # sys.monitoring tool id
_tool_ready = [False]


def _ensure_instruction_tool():
    """INSTRUCTION events (sys.monitoring) on selected code objects are pre-emption points too: a
    read-modify-write on one source line (``self.total += m``) can then be torn by the scheduler."""
    if _tool_ready[0]:
        return
    mon = sys.monitoring
    try:
        mon.use_tool_id(_TOOL, "dsim-sched")
    except ValueError:
        pass

    def on_instruction(code, offset):
        t = getattr(_tls, "task", None)
        if t is None:
            return
        sched = _tls.sched
        t.steps += 1
        sched._tick(t)

    mon.register_callback(_TOOL, mon.events.INSTRUCTION, on_instruction)
    _tool_ready[0] = True


def set_instruction_events(codes, on):
    _ensure_instruction_tool()
    mon = sys.monitoring
    for c in codes:
        mon.set_local_events(_TOOL, c, mon.events.INSTRUCTION if on else 0)


def python_methods_of(cls, roots):
    """Code objects of the plain-Python methods defined (anywhere in the MRO) in files under ``roots``."""
    out = []
    for k in cls.__mro__:
        for v in vars(k).values():
            f = getattr(v, "__func__", v)
            f = getattr(f, "__wrapped__", f)
            code = getattr(f, "__code__", None)
            if code is not None and code.co_filename.startswith(tuple(roots)):
                out.append(code)
    return out


class SimAbort(BaseException):
    """Unwinds parked simulated threads when a run is abandoned."""


class StepCapExceeded(Exception):
    """Harness-level timeout: not a violation."""


class SimDeadlock(RuntimeError):
    """Every live simulated task is blocked on a synchronisation primitive the simulator does not own."""


class SimTaskFault(MemoryError):
    """Injected failure of one simulated task (a failing allocation at an arbitrary point of a worker)."""


class SimTask:
    __slots__ = ("idx", "name", "fn", "deps", "result", "exc", "started", "done",
                 "sem", "budget", "steps", "lastline", "thread", "slices", "fail_at", "has_baton", "blocked", "waiting")

    def __init__(self, idx, name, fn, deps=()):
        self.idx = idx
        self.name = name
        self.fn = fn
        self.deps = tuple(deps)
        self.result = None
        self.exc = None
        self.started = False
        self.done = False
        self.sem = threading.Semaphore(0)
        self.budget = 0
        self.steps = 0
        self.lastline = 0
        self.thread = None
        self.slices = 0
        self.fail_at = None
        self.has_baton = False
        self.blocked = False
        self.waiting = False


RUNLEN_LADDER = (1, 2048, 256, 64, 16, 4)   # index 0: never pre-empt


class Scheduler:
    def __init__(self, tape, roots, step_cap=2_000_000, task_fault=None):
        # task_fault = (k, n): the k-th task to be started (over the whole life of this scheduler) fails with
        # SimTaskFault at its n-th traced line (if it lives that long)
        self.task_fault = task_fault
        self.task_fault_fired = None
        self._started = 0
        self.tape = tape
        self.roots = tuple(roots)
        self.step_cap = step_cap
        self.ctrl = threading.Semaphore(0)
        self._mx = threading.Lock()
        # a task that neither yields nor finishes within block_timeout is taken to be blocked on a real lock / queue
        # introduced by the code under test (the shipped library has none): the baton is revoked, other tasks go on,
        # and the task parks itself at its next trace event.  Wall-clock based, hence not replay-exact: only a
        # safety net so that such code is reported (or at least never hangs the check).
        self.block_timeout = float(os.environ.get("VERIF_BLOCK_TIMEOUT", "10" if os.environ.get("NUMBA_DISABLE_JIT") == "1" else "90"))
        self.blocked_events = 0
        self.aborting = False
        self._h = hashlib.sha256()
        # statistics of the whole run (several graphs may be executed)
        self.total_steps = 0
        self.switches = 0          # slices that ended in a pre-emption
        self.max_live = 0          # max number of simultaneously started-and-unfinished tasks
        self.preempt_in_task = 0   # pre-emptions that happened while >=2 tasks were live
        self.graphs = 0
        self.tasks_run = 0
        self.current = None        # SimTask holding the baton (None = controller)
        # drawn once per run: how fine-grained pre-emption is
        self.runlen_n = RUNLEN_LADDER[tape.draw("sched.granularity", len(RUNLEN_LADDER))]

    # ------------------------------------------------------------------ tracing
    def _make_tracers(self, task):
        roots = self.roots
        sched = self

        last = [None]

        def local_trace(frame, event, arg):
            if event == "line":
                task.steps += 1
                task.lastline = frame.f_lineno
                if task.fail_at is not None:
                    here = (id(frame), frame.f_lineno)
                    repeat = here == last[0]
                    last[0] = here
                    # (not on a repeated line of the same frame: see fsseam.LineCounter about CPython 3.12)
                    if task.steps > task.fail_at and not repeat and sched.task_fault_fired is None and sys.exc_info()[0] is None:
                        sched.task_fault_fired = (task.idx, frame.f_code.co_name, frame.f_lineno)
                        task.fail_at = None
                        raise SimTaskFault(f"simulated allocation failure in task {task.idx} at {frame.f_code.co_name}:{frame.f_lineno}")
                sched._tick(task)
            return local_trace

        def global_trace(frame, event, arg):
            # module-level code of the library is not a pre-emption point: it runs when a compiled function is
            # specialised for a new signature or a lazy import happens -- once per *process*, not per call
            if event == "call" and frame.f_code.co_filename.startswith(roots) and frame.f_code.co_name != "<module>":
                return local_trace
            return None

        return global_trace

    def _tick(self, task):
        """Called in the task's thread at every pre-emption point."""
        if not task.has_baton:
            # the baton was revoked while this thread was blocked in something the simulator does not own
            self._park(task)
            return
        if task.budget > 0:
            task.budget -= 1
            if task.budget == 0:
                self._park(task)

    def _park(self, task):
        with self._mx:
            had = task.has_baton
            task.has_baton = False
            task.waiting = True
        if had:
            self.ctrl.release()
        task.sem.acquire()
        task.waiting = False
        if self.aborting:
            raise SimAbort()

    def _thread_main(self, task):
        task.waiting = True
        task.sem.acquire()
        task.waiting = False
        if self.aborting:
            task.done = True
            return
        gt = self._make_tracers(task)
        _tls.task = task
        _tls.sched = self
        sys.settrace(gt)
        try:
            task.result = task.fn()
        except SimAbort:
            pass
        except BaseException as e:  # noqa: BLE001 - delivered to the caller like dask does
            task.exc = e
        finally:
            sys.settrace(None)
            _tls.task = None
            with self._mx:
                task.done = True
                had = task.has_baton
                task.has_baton = False
            if had:
                self.ctrl.release()

    # ------------------------------------------------------------------ running
    def _give(self, task, budget):
        task.budget = budget
        before = task.steps
        self.current = task
        with self._mx:
            task.has_baton = True
            task.blocked = False
        task.sem.release()
        if not self.ctrl.acquire(timeout=self.block_timeout):
            with self._mx:
                revoked = task.has_baton and not task.done
                if revoked:
                    task.has_baton = False
                    task.blocked = True
            if revoked:
                self.blocked_events += 1
            else:
                self.ctrl.acquire()     # it yielded or finished just now: consume that signal
        self.current = None
        n = task.steps - before
        task.slices += 1
        self.total_steps += n
        self._h.update(b"%d:%d:%d;" % (task.idx, n, task.lastline))
        if self.total_steps > self.step_cap:
            raise StepCapExceeded(f"more than {self.step_cap} line events")
        return n

    def run_graph(self, tasks, pool):
        """tasks: list of SimTask (deps = indices into the list).  Returns the list
        with results filled in; raises the first task exception (dask semantics:
        first failure wins) after draining running threads deterministically."""
        self.graphs += 1
        tape = self.tape
        running = []
        pending = list(tasks)
        first_exc = None
        self._h.update(b"G%d,%d|" % (len(tasks), pool))
        try:
            while True:
                if first_exc is None:
                    ready = [t for t in pending if all(tasks[d].done for d in t.deps)]
                else:
                    ready = []
                if not running and not ready:
                    break
                # reap tasks that finished while they did not hold the baton
                for t in [t for t in running if t.done]:
                    running.remove(t)
                    t.thread.join()
                    if t.exc is not None and first_exc is None:
                        first_exc = t.exc
                if not running and not ready:
                    break
                options = []
                if len(running) < pool:
                    options.extend(("start", t) for t in ready)
                # a blocked task is schedulable again once it has parked itself
                options.extend(("step", t) for t in running if not t.blocked or t.waiting)
                if not options:
                    # every live task is blocked outside the simulator: wait for one of them to come back
                    t_end = time.time() + 6 * self.block_timeout
                    while time.time() < t_end and not any(t.done or t.waiting for t in running):
                        time.sleep(0.02)
                    if not any(t.done or t.waiting for t in running):
                        raise SimDeadlock(f"{len(running)} simulated task(s) blocked on a lock or queue the simulator does not own")
                    continue
                kind, t = options[tape.draw("sched.pick", len(options))]
                if kind == "start":
                    pending.remove(t)
                    t.started = True
                    if self.task_fault is not None and self._started == self.task_fault[0]:
                        t.fail_at = self.task_fault[1]
                    self._started += 1
                    # bind dependency results lazily through closure of fn
                    th = threading.Thread(target=self._thread_main, args=(t,), daemon=True,
                                          name=f"sim-{t.idx}")
                    t.thread = th
                    th.start()
                    running.append(t)
                    self.tasks_run += 1
                    self.max_live = max(self.max_live, len(running))
                if first_exc is not None:
                    budget = 0
                else:
                    budget = tape.draw("sched.runlen", self.runlen_n)
                self._give(t, budget)
                if t.done:
                    running.remove(t)
                    t.thread.join()
                    if t.exc is not None and first_exc is None:
                        first_exc = t.exc
                elif t.blocked:
                    pass
                else:
                    self.switches += 1
                    if len(running) >= 2:
                        self.preempt_in_task += 1
        except BaseException:
            self._abort(running)
            raise
        if first_exc is not None:
            raise first_exc
        return tasks

    def _abort(self, running):
        self.aborting = True
        for t in running:
            if not t.done:
                t.sem.release()
        for t in running:
            if t.thread is not None:
                t.thread.join(timeout=5)
        self.aborting = False

    def digest(self):
        return self._h.hexdigest()[:16]

    def stats(self):
        return {
            "steps": self.total_steps,
            "switches": self.switches,
            "max_live": self.max_live,
            "preempt_in_task": self.preempt_in_task,
            "graphs": self.graphs,
            "tasks": self.tasks_run,
            "runlen_n": self.runlen_n,
            "blocked_events": self.blocked_events,
        }
