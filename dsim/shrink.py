"""Tape minimiser: edits the recorded choice list, keeps a candidate only if the
same violation signature reproduces.  Budget-capped by wall-clock and evaluations.

Passes (repeated until a fixed point or the budget is spent):
  1. truncate   -- shortest prefix (a short tape is padded with 0 = simplest choice)
  2. delete     -- remove chunks (drops operations / events / documents / switches)
  3. zero       -- replace chunks, then single values, by 0 (no fault, no switch, smallest)
  4. lower      -- halve / decrement single values (smaller sizes, lower pool)
"""
import time


def shrink(values, still_fails, budget_s=60.0, max_evals=4000):
    t_end = time.time() + budget_s
    evals = [0]
    best = list(values)

    def ok(cand):
        if evals[0] >= max_evals or time.time() > t_end:
            return False
        evals[0] += 1
        return still_fails(cand)

    def spent():
        return evals[0] >= max_evals or time.time() > t_end

    # strip trailing zeros for free (they are implied)
    while best and best[-1] == 0:
        best.pop()

    improved = True
    while improved and not spent():
        improved = False
        # 1. truncate (binary search on prefix length)
        lo, hi = 0, len(best)
        while lo < hi and not spent():
            mid = (lo + hi) // 2
            if ok(best[:mid]):
                hi = mid
            else:
                lo = mid + 1
        if hi < len(best):
            cand = best[:hi]
            while cand and cand[-1] == 0:
                cand.pop()
            best = cand
            improved = True
        # 2. delete chunks
        size = max(1, len(best) // 2)
        while size >= 1 and not spent():
            i = 0
            while i < len(best) and not spent():
                cand = best[:i] + best[i + size:]
                if ok(cand):
                    best = cand
                    improved = True
                else:
                    i += size
            size //= 2
        # 3. zero chunks / values
        size = max(1, len(best) // 4)
        while size >= 1 and not spent():
            i = 0
            while i < len(best) and not spent():
                if any(best[i:i + size]):
                    cand = best[:i] + [0] * len(best[i:i + size]) + best[i + size:]
                    if ok(cand):
                        best = cand
                        improved = True
                i += size
            size //= 2
        # 4. lower single values
        for i in range(len(best)):
            if spent():
                break
            v = best[i]
            while v > 0 and not spent():
                for nv in (v // 2, v - 1):
                    if nv < v:
                        cand = best[:i] + [nv] + best[i + 1:]
                        if ok(cand):
                            best = cand
                            v = nv
                            improved = True
                            break
                else:
                    break
        while best and best[-1] == 0:
            best.pop()
    return best, evals[0]
