"""The dask seam: the simulator *is* dask's scheduler.

``dask.config.set(scheduler=SimGet(sched, ...))`` -- an official dask API -- makes
every ``.compute()`` inside the library hand its task graph to us.  Real: graph
construction, chunk boundaries, the task bodies (``_build_coo``,
``_em_cooccurrence_iteration``, ``sum``).  Stub: dask's ThreadPoolExecutor, its
queue and its ``order()`` heuristic; every order dask could pick is in the sampled
space, plus orders it would not pick.

dask task keys contain uuid4() -> tasks are numbered by a depth-first walk from the
requested keys that follows TaskRefs in argument order, never by key.
"""
from dask._task_spec import convert_legacy_graph, TaskRef, Task, Alias, DataNode  # noqa: F401

from .sched import SimTask


def _refs_in_order(obj, out):
    """Collect TaskRef keys inside a task's args in the order they appear."""
    if isinstance(obj, TaskRef):
        out.append(obj.key)
    elif isinstance(obj, (Task,)):
        for a in obj.args:
            _refs_in_order(a, out)
        for k in sorted(obj.kwargs):
            _refs_in_order(obj.kwargs[k], out)
    elif isinstance(obj, Alias):
        out.append(obj.target.key if hasattr(obj.target, "key") else obj.target)
    elif isinstance(obj, (list, tuple)):
        for a in obj:
            _refs_in_order(a, out)
    elif isinstance(obj, dict):
        for k in obj:
            _refs_in_order(obj[k], out)
    elif hasattr(obj, "args") and not isinstance(obj, DataNode):
        for a in obj.args:
            _refs_in_order(a, out)


class SimGet:
    def __init__(self, sched, tape, max_pool=16, on_task_done=None, instr_codes=()):
        self.instr_codes = list(instr_codes)
        self.sched = sched
        self.tape = tape
        self.max_pool = max_pool
        self.on_task_done = on_task_done
        self.pools = []
        self.graph_shapes = []

    def __call__(self, dsk, keys, **kwargs):
        g = dsk.__dask_graph__() if hasattr(dsk, "__dask_graph__") else dsk
        g = convert_legacy_graph(g)
        # deterministic numbering: DFS post-order from the requested keys
        order = []
        seen = set()

        def visit(k):
            if k in seen:
                return
            seen.add(k)
            node = g[k]
            refs = []
            if isinstance(node, Alias):
                refs = [node.target.key if hasattr(node.target, "key") else node.target]
            elif isinstance(node, Task):
                for a in node.args:
                    _refs_in_order(a, refs)
                for kk in sorted(node.kwargs):
                    _refs_in_order(node.kwargs[kk], refs)
            # be safe: anything in .dependencies we did not see in args comes last, sorted by repr
            missing = [d for d in node.dependencies if d not in refs]
            for r in refs + sorted(missing, key=repr):
                visit(r)
            order.append(k)

        flat = []

        def flatten(ks):
            for k in ks:
                if isinstance(k, list):
                    flatten(k)
                else:
                    flat.append(k)

        flatten(keys if isinstance(keys, list) else [keys])
        for k in flat:
            visit(k)

        index = {k: i for i, k in enumerate(order)}
        data = {}
        tasks = []
        for i, k in enumerate(order):
            node = g[k]
            deps = [index[d] for d in node.dependencies]

            def fn(node=node, k=k, i=i):
                r = node(data) if callable(node) else node
                data[k] = r
                if self.on_task_done is not None:
                    self.on_task_done(i, len(order), r)
                return r

            tasks.append(SimTask(i, f"t{i}", fn, deps))

        pool = 1 + self.tape.draw("sched.pool", self.max_pool)
        self.pools.append(pool)
        self.graph_shapes.append(len(order))
        if self.instr_codes:
            from .sched import set_instruction_events
            set_instruction_events(self.instr_codes, True)
            try:
                self.sched.run_graph(tasks, pool)
            finally:
                set_instruction_events(self.instr_codes, False)
        else:
            self.sched.run_graph(tasks, pool)

        def fetch(k):
            if isinstance(k, list):
                return [fetch(x) for x in k]
            return data[k]

        return fetch(keys)
