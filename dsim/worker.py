"""Worker process: runs a slice of the seed range for one (property, layer, mode).

Invoked by the orchestrator (dsim.runner) as
    python worker.py <config.json>
with the environment (JIT on/off, hook value, hash seed, numba cache dir) fixed
*before* numpy / numba are imported.  Writes one JSON result file.
"""
import faulthandler
import importlib
import json
import os
import sys
import time
import traceback

HERE = os.path.dirname(os.path.abspath(__file__))
sys.path.insert(0, os.path.dirname(HERE))

WORKLOADS = {
    ("C04", "L1"): "dsim.workloads.c04_l1",
    ("C04", "L2"): "dsim.workloads.c04_l2",
    ("C12", "H"): "dsim.workloads.c12",
    ("C13", "H"): "dsim.workloads.c13",
}


def load(cfg):
    """Import the tree under test and the workload; returns (ctx, module)."""
    repo = cfg["repo"]
    sys.path.insert(0, repo)
    import warnings
    warnings.filterwarnings("ignore")
    import vectorizers
    vf = os.path.realpath(vectorizers.__file__)
    if not vf.startswith(os.path.realpath(repo) + os.sep):
        raise RuntimeError(f"vectorizers imported from {vf}, expected under {repo}")
    from dsim.common import Ctx
    ctx = Ctx(cfg["prop"], cfg["layer"], cfg["mode"], os.path.realpath(repo), cfg["scratch"],
              hook_limit=cfg.get("hook_limit"), tier=cfg.get("tier", "quick"))
    ctx.cfg = cfg
    mod = importlib.import_module(WORKLOADS[(cfg["prop"], cfg["layer"])])
    mod.setup(ctx)
    return ctx, mod


def run_one(ctx, mod, tape):
    """Returns a record dict; never raises for things that happen inside the run."""
    from dsim.common import Violation, HarnessError
    from dsim.sched import StepCapExceeded
    rec = {"violation": None, "harness_error": None, "result": None}
    try:
        rec["result"] = mod.run(tape, ctx)
    except Violation as v:
        rec["violation"] = {"sig": v.sig, "msg": v.msg, "detail": v.detail}
    except StepCapExceeded as e:
        # an oversized run: skipped and counted, neither a violation nor a harness failure
        rec["result"] = {"desc": None, "probes": {"skipped.step-cap": 1}, "nontrivial": False,
                         "known_outcomes": ["skipped:step-cap"]}
    except HarnessError as e:
        rec["harness_error"] = {"kind": "harness", "msg": str(e), "tb": traceback.format_exc()}
    except Exception as e:  # a bug in the machinery: classified apart from VIOLATION
        rec["harness_error"] = {"kind": "exception:" + type(e).__name__, "msg": repr(e),
                                "tb": traceback.format_exc()}
    rec["tape_len"] = len(tape.values)
    return rec


def main():
    cfg = json.load(open(sys.argv[1]))
    faulthandler.enable()
    if cfg.get("hard_timeout"):
        faulthandler.dump_traceback_later(cfg["hard_timeout"], exit=True)
    t0 = time.time()
    ctx, mod = load(cfg)
    warm = time.time() - t0
    from dsim.tape import Tape, run_seed
    from dsim.common import Probes, jdump, _default

    action = cfg.get("action", "range")
    if action == "replay":
        tape = Tape(replay=cfg["tape"])
        rec = run_one(ctx, mod, tape)
        if rec["result"] is not None:
            r = rec["result"]
            rec["result"] = {"desc": r.get("desc"), "sched": r.get("sched"), "digest": r.get("digest"),
                             "probes": dict(r.get("probes", {})), "faults": dict(r.get("faults", {}))}
        rec["tape_digest"] = tape.digest()
        rec["kinds"] = list(tape.kinds)
        rec["values"] = list(tape.values)
        jdump(rec, cfg["out"])
        return
    if action == "shrink":
        from dsim.shrink import shrink
        sig = cfg["sig"]

        def still_fails(vals):
            rec = run_one(ctx, mod, Tape(replay=vals))
            return bool(rec["violation"]) and rec["violation"]["sig"] == sig

        best, evals = shrink(cfg["tape"], still_fails, budget_s=cfg.get("shrink_budget_s", 60),
                             max_evals=cfg.get("shrink_max_evals", 3000))
        tape = Tape(replay=best)
        rec = run_one(ctx, mod, tape)
        jdump({"tape": list(tape.values), "kinds": list(tape.kinds), "evals": evals,
               "violation": rec["violation"], "orig_len": len(cfg["tape"])}, cfg["out"])
        return

    out = {
        "cfg": cfg, "warmup_s": warm, "runs": 0, "violations": [], "harness_errors": [],
        "probes": Probes(), "faults": Probes(), "sched": Probes(), "digests": [], "case_sigs": [],
        "samples": [], "per_run": [], "truncated": False, "last_index": None, "known_outcomes": Probes(),
        "nontrivial": 0,
    }
    progress_path = cfg["out"] + ".progress"
    deadline = t0 + cfg["budget_s"] if cfg.get("budget_s") else None
    idx = cfg["start"]
    want_per_run = cfg.get("per_run", False)
    while idx < cfg["stop"]:
        if deadline and time.time() > deadline:
            out["truncated"] = True
            break
        seed = run_seed(cfg["base_seed"], cfg["prop"], cfg["layer"] + "/" + cfg["mode"] + cfg.get("variant", ""), idx)
        # leave a breadcrumb so that the orchestrator can attribute an abnormal termination
        with open(progress_path, "w") as f:
            f.write(f"{idx} {seed}\n")
        tape = Tape(seed)
        rec = run_one(ctx, mod, tape)
        out["runs"] += 1
        out["last_index"] = idx
        if rec["violation"]:
            v = rec["violation"]
            out["violations"].append({"index": idx, "seed": seed, "sig": v["sig"], "msg": v["msg"],
                                      "detail": v["detail"], "tape": list(tape.values)})
        elif rec["harness_error"]:
            h = rec["harness_error"]
            h.update(index=idx, seed=seed)
            out["harness_errors"].append(h)
        else:
            r = rec["result"]
            out["probes"].merge(r.get("probes", {}))
            out["faults"].merge(r.get("faults", {}))
            out["sched"].merge({k: v for k, v in (r.get("sched") or {}).items() if isinstance(v, int)})
            if r.get("nontrivial"):
                out["nontrivial"] += 1
                cs = r.get("signature_of_case")
                if cs is not None:
                    out["case_sigs"].append(hash_obj(cs))
            if r.get("digest"):
                out["digests"].append(r["digest"])
            if len(out["samples"]) < cfg.get("n_samples", 2) and r.get("nontrivial"):
                out["samples"].append({"index": idx, "seed": seed, "desc": r.get("desc"),
                                       "sched": r.get("sched"), "faults": dict(r.get("faults", {}))})
            for k in r.get("known_outcomes", ()):  # e.g. kernel faults independent of config
                out["known_outcomes"].hit(k)
        if want_per_run or idx < cfg.get("offset0", 0) + cfg.get("per_run_upto", 0):
            out["per_run"].append({"index": idx, "tape": tape.digest(),
                                   "sched": (rec["result"] or {}).get("digest") if rec["result"] else None,
                                   "outcome": outcome_digest(rec),
                                   "model": (rec["result"] or {}).get("model_digest") if rec["result"] else None,
                                   "family": (rec["result"] or {}).get("family") if rec["result"] else None,
                                   "seed": seed})
        idx += cfg.get("step", 1)
    out["wall_s"] = time.time() - t0
    faulthandler.cancel_dump_traceback_later()
    jdump(out, cfg["out"])
    try:
        os.remove(progress_path)
    except OSError:
        pass


def hash_obj(o):
    import hashlib
    return hashlib.sha256(json.dumps(o, sort_keys=True, default=repr).encode()).hexdigest()[:12]


def outcome_digest(rec):
    if rec["violation"]:
        return "V:" + rec["violation"]["sig"]
    if rec["harness_error"]:
        return "H:" + rec["harness_error"]["kind"]
    r = rec["result"]
    return hash_obj({"desc": r.get("desc"), "probes": dict(r.get("probes", {})), "out": r.get("outcome_digest")})


if __name__ == "__main__":
    main()
