"""dsim -- deterministic simulation with fault injection for TutteInstitute/vectorizers.

See /verif/DESIGN.md.  Everything a run decides is drawn from one Tape
(dsim.tape); the schedule of simulated threads is decided by dsim.sched; dask's
scheduler is replaced by dsim.daskseam.SimGet; files and readers are wrapped by
dsim.fsseam; parallel loops are outlined by dsim.prangeseam.
"""
