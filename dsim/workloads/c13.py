"""C13 -- calls are free of side effects, repeatable, and leave nothing behind.

System = {one estimator object, the caller's data and parameter objects, the temp
directory, the sources of randomness}.  A run draws an estimator family and a case
(adapters.py), then a history of operations, each optionally carrying ONE fault:

  io:<errno>@k     the k-th scratch-file operation made by library code fails
  reader:raise@j / reader:short@j   a generator input raises / ends early at item j
  data:<kind>@j    an invalid item (NaN / negative / zero-mass / wrong dimension) in a later block
  cancel@n         SimCancel (KeyboardInterrupt) at the n-th traced line of the call

Every primary call is preceded by a fault-free *rehearsal* of the same call on a pristine
twin (fresh estimator, fresh copies of the data, fitted under perturbed global RNG /
schedule): it is the fault-free configuration of the workload, it yields the memo the
primary must agree with, and it tells how many I/O operations and traced lines the call
has, so that faults land inside it.

Oracles after every call, returned or raised (never relaxed unless stated):
  1 inputs and constructor-parameter objects unchanged (deep snapshots, scalars by type and value);
  1b dask's process-wide configuration unchanged; no threads left running by two consecutive calls;
  2 sandbox temp directory listing unchanged (waived only for a path whose removal we made fail);
  3 transform output == pristine twin's single-call output for that input;
  4 same seed, same model: twin's fitted public attributes == primary's (1e-9).
"""
import os
import shutil
import threading
import time

import numpy as np

from ..common import Violation, Probes, HarnessError
from ..sched import Scheduler, StepCapExceeded, python_methods_of
from ..daskseam import SimGet
from ..fsseam import FsSeam, LineCounter, SimCancel, listing, CLEANUP_OPS
from ..snapshot import snap, diff
from .. import adapters as A

_st = {}

FAMILIES = [
    (4, "WassersteinCase"), (2, "CoocCase"), (1, "NgramCase"), (1, "SkipgramCase"), (1, "LZCase"), (1, "BPECase"),
    (1, "HistogramCase"), (1, "KDECase"), (1, "DistributionCase"), (1, "InfoWeightCase"), (1, "RowDenoiseCase"),
    (1, "CFCCase"), (1, "SlidingWindowCase"), (1, "TreeCase"), (1, "EdgeListCase"), (1, "CategoricalCase"),
]


def setup(ctx):
    import vectorizers  # noqa: F401
    _st["ctx"] = ctx
    _st["n"] = 0
    os.makedirs(ctx.scratch, exist_ok=True)
    _st["iso"] = None
    params = getattr(ctx, "cfg", {}).get("params", {})
    if ctx.interp and params.get("isolated_twin", True) and hasattr(os, "fork"):
        _st["iso"] = _start_pristine_server()


# ----------------------------------------------------------------------------- the isolated twin
# "The same output as a single call" must also hold against process-global state (a module-level cache that one
# call fills and a later call -- of any estimator -- reads).  A twin living in the same interpreter shares that
# state.  So a *pristine server* is forked at set-up, before any run; for every request it forks a grandchild
# that performs fit + one transform from scratch in an interpreter whose module state is exactly the post-import
# state, and sends the result back.  interp mode only (no compiled state to re-create in every grandchild).
def _start_pristine_server():
    import multiprocessing as mp
    import pickle
    parent, child = mp.Pipe()
    pid = os.fork()
    if pid != 0:
        child.close()
        return {"conn": parent, "pid": pid}
    # ---- server (never returns)
    parent.close()
    try:
        while True:
            try:
                req = child.recv_bytes()
            except EOFError:
                break
            r, w = os.pipe()
            gpid = os.fork()
            if gpid == 0:
                os.close(r)
                try:
                    out = _isolated_single_call(pickle.loads(req))
                except BaseException as e:  # noqa: BLE001
                    out = ("harness", repr(e))
                try:
                    data = pickle.dumps(out)
                except Exception as e:
                    data = pickle.dumps(("harness", "unpicklable result: " + repr(e)))
                with os.fdopen(w, "wb") as f:
                    f.write(data)
                os._exit(0)
            os.close(w)
            with os.fdopen(r, "rb") as f:
                data = f.read()
            os.waitpid(gpid, 0)
            child.send_bytes(data if data else pickle.dumps(("harness", "grandchild died")))
    finally:
        os._exit(0)


def _isolated_single_call(req):
    import tempfile
    import warnings
    warnings.filterwarnings("ignore")
    case, train_ids, ids, method, alt, sandbox = req
    os.makedirs(sandbox, exist_ok=True)
    tempfile.tempdir = sandbox
    case.sandbox = sandbox
    np.random.seed(424242)
    est, _ = case.new_estimator()
    X, kw = case.build(train_ids, for_fit=True)
    kw.update(case.fit_extra(train_ids))
    case._n_for_call = len(train_ids)
    try:
        case.call_fit(est, method, X, kw)
    except Exception as e:
        return ("fit-exc", type(e).__name__)
    X, kw = case.build(ids, alt_vectors=True) if alt else case.build(ids)
    case._n_for_call = len(ids)
    try:
        out = case.call_transform(est, X, kw)
    except Exception as e:
        return ("exc", type(e).__name__)
    return ("ok", case.rows(out, len(ids)))


def _ask_isolated(case, train_ids, ids, method, alt):
    import pickle
    iso = _st.get("iso")
    if iso is None:
        return None
    sandbox = os.path.join(_st["ctx"].scratch, f"iso-{os.getpid()}")
    saved = getattr(case, "sandbox", None)
    try:
        payload = pickle.dumps((case, list(train_ids), list(ids), method, bool(alt), sandbox))
    except Exception:
        return None            # a case that cannot be shipped (not expected): simply no isolated oracle for it
    finally:
        case.sandbox = saved
    iso["conn"].send_bytes(payload)
    if not iso["conn"].poll(120):
        raise HarnessError("pristine twin server did not answer within 120 s")
    res = pickle.loads(iso["conn"].recv_bytes())
    shutil.rmtree(sandbox, ignore_errors=True)
    return res


def _tag(case):
    return case.name


class Rig:
    """Executes calls on estimators with all seams in force and applies oracles 1 and 2."""

    def __init__(self, tape, ctx, case, sandbox, probes, faults):
        self.tape = tape
        self.ctx = ctx
        self.case = case
        self.sandbox = sandbox
        self.probes = probes
        self.faults = faults
        self.steps = 0
        self._thread_growth = 0
        self.sched_stats = Probes()
        self.digests = []

    def call(self, est, pobjs, opname, fn, X, kw, *, io_fault=None, cancel_at=None, role="primary",
             fault_label=None, is_generator=False, task_fault=None):
        """Returns (status, value, info).  status in {"ok","exc"}; raises Violation for oracles 1/2."""
        import dask
        case = self.case
        tag = _tag(case)
        before = {"X": None if is_generator else snap(X)}
        for k, v in kw.items():
            if not hasattr(v, "send"):          # not a generator
                before["kw:" + k] = snap(v)
        for k, v in pobjs.items():
            before["param:" + k] = snap(v)
        ls_before = listing(self.sandbox)
        cfg_before = snap(dask.config.config)
        thr_before = threading.active_count()
        seam = FsSeam(self.ctx.trace_roots, self.sandbox, *(io_fault or (None, 0)))
        counter = LineCounter(self.ctx.trace_roots, cancel_at=cancel_at)
        sched = None
        status, value = "ok", None
        try:
            with seam:
                if case.uses_dask and getattr(est, "n_threads", 1) > 1:
                    sched = Scheduler(self.tape, self.ctx.trace_roots, step_cap=2_000_000, task_fault=task_fault)
                    get = SimGet(sched, self.tape, instr_codes=python_methods_of(type(est), self.ctx.trace_roots))
                    with dask.config.set(scheduler=get), counter:
                        value = fn(X, kw)
                else:
                    with counter:
                        value = fn(X, kw)
        except (Violation, StepCapExceeded, HarnessError):
            raise
        except SimCancel as e:
            status, value = "exc", e
        except KeyboardInterrupt:
            raise
        except BaseException as e:  # noqa: BLE001 - an outcome of the call
            status, value = "exc", e
        if sched is not None:
            self.sched_stats.merge({k: v for k, v in sched.stats().items() if isinstance(v, int)})
            self.digests.append(sched.digest())
        self.steps += counter.count
        info = {"io_ops": list(seam.ops), "lines": counter.count, "io_fired": seam.fired, "cancel_fired": counter.fired,
                "task_fault_fired": sched.task_fault_fired if sched is not None else None,
                "tasks": sched.tasks_run if sched is not None else 0}
        if info["task_fault_fired"]:
            self.faults.hit("task:alloc-failure")
        if seam.fired:
            self.faults.hit(f"io:{seam.fired[1]}@{seam.fired[0]}")
        if counter.fired:
            self.faults.hit("cancel@line")
        suffix = "|cancel" if counter.fired else ""
        how = "returned" if status == "ok" else "raised"
        # ---- oracle 1: inputs and parameter objects untouched
        after = {"X": None if is_generator else snap(X)}
        for k, v in kw.items():
            if not hasattr(v, "send"):
                after["kw:" + k] = snap(v)
        for k, v in pobjs.items():
            after["param:" + k] = snap(v)
        for k in before:
            if before[k] != after[k]:
                d = diff(before[k], after[k], k.split(":")[-1])
                if k.startswith("param:"):
                    sig = f"C13|{tag}|param-mutated|{k[6:]}|{opname}{suffix}"
                else:
                    sig = f"C13|{tag}|input-mutated|arg={k.split(':')[-1]}|{opname}{suffix}"
                raise Violation(sig, f"{opname} ({role}, {how}{', fault ' + fault_label if fault_label else ''}) modified "
                                     f"{'constructor parameter' if k.startswith('param:') else 'argument'} {d}", self.case.desc)
        # ---- oracle 1b: process-global state the caller owns is as it was -- dask's global configuration (our own
        # scheduler setting was a ``with`` block that has been left by now) and the set of running threads (a pool
        # started per call and never closed: flagged when two consecutive calls each leave more threads alive, so a
        # pool that is created once and kept is not an alarm)
        cfg_after = snap(dask.config.config)
        if cfg_after != cfg_before:
            raise Violation(f"C13|{tag}|global-state-changed|dask.config|{opname}{suffix}",
                            f"{opname} ({role}, {how}) changed dask's process-wide configuration: "
                            f"{diff(cfg_before, cfg_after, 'dask.config')}", self.case.desc)
        grew = threading.active_count() > thr_before
        if grew:
            t_end = time.monotonic() + 0.5
            while time.monotonic() < t_end and threading.active_count() > thr_before:
                time.sleep(0.01)
            grew = threading.active_count() > thr_before
        if grew and self._thread_growth >= 1 and status == "ok":
            names = sorted(t.name for t in threading.enumerate())[:8]
            raise Violation(f"C13|{tag}|threads-left-running|{opname}",
                            f"{opname} ({role}) returned and left threads running, as the call before it did "
                            f"({thr_before} -> {threading.active_count()} live threads, e.g. {names})", self.case.desc)
        self._thread_growth = self._thread_growth + 1 if grew else 0
        # ---- oracle 2: nothing left behind
        ls_after = listing(self.sandbox)
        if ls_after != ls_before:
            left = [x for x in ls_after if x not in ls_before]
            waived = {os.path.realpath(p) for p in seam.waived_paths}
            real_left = []
            for kind, rel in left:
                full = os.path.realpath(os.path.join(self.sandbox, rel))
                if full in waived or any(full.startswith(w + os.sep) or w.startswith(full + os.sep) or w == full for w in waived):
                    continue
                real_left.append((kind, rel))
            if real_left:
                kinds = "+".join(sorted({k for k, _ in real_left}))
                excn = "" if status == "ok" else ":" + type(value).__name__
                sig = f"C13|{tag}|tmp-left|{kinds}|{opname}|{how}{suffix}"
                raise Violation(sig, f"{opname} ({role}) {how}{excn}{' under fault ' + fault_label if fault_label else ''} and left "
                                     f"behind in the temp directory: {[r for _, r in real_left][:4]}", self.case.desc)
            # clean the waived leftovers ourselves so that later listings start clean
            for kind, rel in left:
                p = os.path.join(self.sandbox, rel)
                if os.path.isdir(p):
                    shutil.rmtree(p, ignore_errors=True)
                elif os.path.exists(p):
                    os.remove(p)
        return status, value, info


def _fitted_diff(case, a, b, tol=1e-9):
    sa, sb = case.fitted_state(a), case.fitted_state(b)
    for k in sorted(sa):
        if k not in sb:
            continue        # set by transform only (e.g. mix_weights_): not fitted state
        va, vb = sa[k], sb[k]
        if isinstance(va, (dict,)) or hasattr(va, "_numba_type_"):
            try:
                if dict(va) != dict(vb):
                    return f"{k}: dictionaries differ"
            except Exception:
                pass
            continue
        if isinstance(va, (np.ndarray, list, tuple, float, int, np.generic)) or hasattr(va, "tocsr"):
            if not A.same(va, vb, tol):
                return f"{k}: {A.describe_diff(va, vb)}"
    return None


def _out_tol(case, ctx):
    """Output tolerance.  Compiled Sinkhorn runs sum the stopping-test error in a parallel reduction whose order is not
    fixed, so two executions of the same call may stop ten iterations apart (differences at the level of the 1e-9
    convergence tolerance, amplified by the projection): 1e-6 there, as in C12; 1e-8/1e-9 everywhere else."""
    if (not ctx.interp) and isinstance(case, A.WassersteinCase) and case.which in ("W-sinkhorn", "Sinkhorn"):
        return 1e-6
    return max(case.tol, 1e-9)


def _repro_sig(case, sig):
    """Reproducibility oracles (3, 4) on a case whose ARPACK factorisation is not unique get one call-site signature.
    The spectrum is that of the training subset in use (case._cur_train, set by the history)."""
    if case.is_arpack_degenerate(getattr(case, "_cur_train", case.train_ids)):
        return f"C13|{case.cls.__name__}|not-reproducible|arpack-degenerate-spectrum"
    return sig


def _draw_batches(tape, case):
    n = len(case.pool)
    batches = [list(case.train_ids)]
    for _ in range(tape.between("h.nbatches", 1, 3)):
        k = tape.weighted("h.batch_kind", [(3, "subset"), (2, "single"), (2, "all"), (1, "perm-train")])
        if k == "single":
            batches.append([tape.draw("h.item", n)])
        elif k == "all":
            batches.append(list(range(n)))
        elif k == "perm-train":
            batches.append(tape.shuffle("h.perm", case.train_ids))
        else:
            m = tape.between("h.bsize", 2, min(n, 8))
            batches.append([tape.draw("h.item", n) for _ in range(m)])
    return batches


def run(tape, ctx):
    params = getattr(ctx, "cfg", {}).get("params", {})
    fams = [(w, n) for w, n in FAMILIES if not params.get("families") or n in params["families"]]
    fam = A.BY_NAME[tape.weighted("c13.family", fams)]
    case = fam.draw(tape, ctx)
    _st["n"] += 1
    root = os.path.join(ctx.scratch, f"c13-{os.getpid()}-{_st['n']}")
    sandbox = os.path.join(root, "tmp")
    os.makedirs(sandbox, exist_ok=True)
    case.sandbox = sandbox
    probes, faults = Probes(), Probes()
    rig = Rig(tape, ctx, case, sandbox, probes, faults)
    allow_cancel = bool(params.get("cancel", ctx.tier == "thorough"))
    try:
        return _history(tape, ctx, case, rig, probes, faults, allow_cancel)
    finally:
        shutil.rmtree(root, ignore_errors=True)


def _history(tape, ctx, case, rig, probes, faults, allow_cancel):
    tag = _tag(case)
    desc = case.desc
    batches = _draw_batches(tape, case) if case.has_transform else [list(case.train_ids)]
    is_gen = getattr(case, "input_method", None) == "generator"
    supports_io = isinstance(case, A.WassersteinCase) and case.which not in ("ApproxW", "W-heuristic")
    supports_invalid = (isinstance(case, A.WassersteinCase) and case.which not in ("ApproxW",)) or case.supports_invalid_doc
    ops_log = []
    desc["ops"] = ops_log
    n_ops = tape.between("h.n_ops", 3, 8)
    fault_budget = 0 if getattr(ctx, "cfg", {}).get("params", {}).get("no_faults") else 2

    import hashlib
    model_h = hashlib.sha256()

    def note_model(label, obj):
        # exact digest of fault-free results: compared across PYTHONHASHSEED values by the orchestrator
        model_h.update(label.encode())
        model_h.update(repr(snap(obj)).encode())

    # a refit may use a different training subset (same estimator object, new data): the twin follows
    train_sets = [list(case.train_ids)]
    if case.has_transform and len(case.pool) > len(case.train_ids) >= 2:
        k = len(case.train_ids)
        train_sets.append(list(range(len(case.pool) - k, len(case.pool))))
    cur_train = train_sets[0]
    case._cur_train = cur_train
    can_alt_vectors = isinstance(case, A.WassersteinCase) and case.which not in ("ApproxW", "W-heuristic")

    held = {}               # name -> (object, snapshot): inputs of the primary's last successful fit
    last_fit_objects = {}
    primary, p_objs = case.new_estimator()
    fitted = False
    fit_method = None
    memo = {}            # batch index -> ("ok", out, info) | ("exc", ExcName, info)
    hist_kinds = []

    def fresh_fit(method, role, seed_perturb, **fault):
        """Fit a fresh estimator (twin) fault-free; returns (est, pobjs, status, value, info)."""
        est, pobjs = case.new_estimator()
        X, kw = case.build(cur_train, for_fit=True)
        kw.update(case.fit_extra(cur_train))
        case._n_for_call = len(cur_train)
        np.random.seed(seed_perturb)
        st, val, info = rig.call(est, pobjs, method, lambda X_, kw_: case.call_fit(est, method, X_, kw_), X, kw,
                                 role=role, is_generator=is_gen)
        return est, pobjs, st, val, info

    def draw_fault(kind_of_call, info, n_items):
        """Decide the (single) fault for the next primary call."""
        nonlocal fault_budget
        if fault_budget <= 0:
            return None
        opts = [(6, None)]
        if supports_io and info["io_ops"]:
            opts.append((9, "io"))
        if is_gen:
            opts.append((5, "reader"))
        if supports_invalid and n_items >= 2:
            opts.append((3, "data"))
        if allow_cancel and info["lines"] > 0:
            opts.append((4, "cancel"))
        if info.get("tasks", 0) >= 2:
            opts.append((6, "taskfail"))
        k = tape.weighted("f.kind", opts)
        if k is None:
            return None
        fault_budget -= 1
        if k == "io":
            # bias towards operations that create in-flight state: pick uniformly among the rehearsal's ops
            at = tape.draw("f.io_at", len(info["io_ops"]))
            return ("io", at, tape.draw("f.io_errno", 2), f"io@{at}:{info['io_ops'][at][0]}")
        if k == "reader":
            how = tape.choice("f.reader_how", ["raise", "short"])
            j = tape.draw("f.reader_at", max(1, n_items))
            which = tape.choice("f.reader_which", ["X", "vectors"])
            return ("reader", (how, j, which), None, f"reader:{how}@{j}:{which}")
        if k == "data":
            j = n_items // 2 + tape.draw("f.data_at", max(1, n_items - n_items // 2))
            kind = tape.choice("f.data_kind", ["nan", "negative", "shape-or-zero"]) if not case.supports_invalid_doc \
                else tape.choice("f.doc_kind", ["other-type", "unhashable"])
            return ("data", j, kind, f"data:{kind}@{j}")
        if k == "taskfail":
            # one of the chunk tasks of the call fails part-way (the rehearsal told how many tasks the call starts)
            which = tape.draw("f.task_which", info["tasks"])
            at = tape.weighted("f.task_at", [(2, 0), (2, 5), (2, 30), (1, 200)])
            return ("taskfail", (which, at), None, f"taskfail@task{which}:line{at}")
        at = tape.draw("f.cancel_at", info["lines"])
        return ("cancel", at, None, f"cancel@{at}")

    def primary_call(opname, ids, fn_kind, fault, alt=False):
        """Run fit / fit_transform / transform on the primary with an optional fault."""
        bkw = {}
        label = None
        io_fault = None
        cancel_at = None
        task_fault = None
        rstats = {}
        if fault is not None:
            label = fault[3]
            if fault[0] == "io":
                io_fault = (fault[1], fault[2])
            elif fault[0] == "reader":
                bkw.update(reader_fault=fault[1], reader_stats=rstats)
            elif fault[0] == "data":
                bkw.update(invalid_at=fault[1], invalid_kind=fault[2])
            elif fault[0] == "cancel":
                cancel_at = fault[1]
            elif fault[0] == "taskfail":
                task_fault = fault[1]
        if alt:
            bkw["alt_vectors"] = True
        X, kw = case.build(ids, for_fit=fn_kind != "transform", **bkw) if bkw else case.build(ids, for_fit=fn_kind != "transform")
        case._n_for_call = len(ids)
        if fn_kind == "transform":
            fn = lambda X_, kw_: case.call_transform(primary, X_, kw_)  # noqa: E731
        else:
            kw.update(case.fit_extra(ids))
            fn = lambda X_, kw_: case.call_fit(primary, fn_kind, X_, kw_)  # noqa: E731
        st, val, info = rig.call(primary, p_objs, opname, fn, X, kw, io_fault=io_fault, cancel_at=cancel_at,
                                 fault_label=label, is_generator=is_gen, task_fault=task_fault)
        # objects given to the last successful fit must still be as the caller left them
        for name, (obj, before) in held.items():
            after = snap(obj)
            if after != before:
                raise Violation(f"C13|{tag}|fit-input-mutated-by-later-call|arg={name}|by={opname}",
                                f"{opname} (primary) modified an object that had been passed to the earlier fit: "
                                f"{diff(before, after, name)}", desc)
        if fn_kind != "transform":
            last_fit_objects.clear()
            if not is_gen:
                last_fit_objects["X"] = (X, snap(X))
            for k_, v_ in kw.items():
                if not hasattr(v_, "send"):
                    last_fit_objects[k_] = (v_, snap(v_))
        if fault is not None and fault[0] == "reader" and rstats.get("fired"):
            faults.hit(f"reader:{fault[1][0]}")
        if fault is not None and fault[0] == "data":
            faults.hit(f"data:{fault[2]}")
        fired = bool(info["io_fired"] or info["cancel_fired"] or info.get("task_fault_fired") or rstats.get("fired")
                     or (fault is not None and fault[0] == "data"))
        return st, val, info, fired

    seed_a, seed_b = 1234, 98765
    for opi in range(n_ops):
        if not fitted:
            op = "fit"
        else:
            choices = [(6, "transform"), (1, "refit")] if case.has_transform else [(1, "refit")]
            op = tape.weighted("h.op", choices)
        if op in ("fit", "refit"):
            method = tape.choice("h.fit_method", list(case.fit_methods))
            if op == "refit" and len(train_sets) > 1:
                cur_train = train_sets[tape.weighted("h.train_set", [(2, 0), (1, 1)])]
                case._cur_train = cur_train
                if cur_train is train_sets[1]:
                    probes.hit("refit-on-different-data")
            # rehearsal on a pristine twin (fault-free configuration), perturbed global RNG
            twin, t_objs, tst, tval, tinfo = fresh_fit(method, "twin", seed_b + opi)
            if tst == "exc" and isinstance(tval, SimCancel):
                raise HarnessError("cancel fired in a rehearsal")
            fault = draw_fault("fit", tinfo, len(cur_train)) if opi > 0 or tape.chance("h.fault_first_fit", 1, 2) else None
            np.random.seed(seed_a + opi)
            old_state = primary if fitted else None
            pst, pval, pinfo, fired = primary_call(method, cur_train, method, fault)
            ops_log.append({"op": method, "fault": fault[3] if fault else None, "fired": fired, "outcome": pst if pst == "ok" else type(pval).__name__})
            hist_kinds.append(method + ("+" + fault[0] if fault and fired else ""))
            if tinfo["io_ops"]:
                probes.hit("blockwise-fit")
            if pst == "exc" and not fired:
                if tst == "exc" and type(tval).__name__ == type(pval).__name__:
                    # this estimator cannot be fitted on this data at all: a consistent outcome; nothing more to learn
                    probes.hit("fit-raises-consistently")
                    break
                raise Violation(f"C13|{tag}|fit-outcome-differs-between-identical-fits|{method}",
                                f"primary {method} raised {type(pval).__name__}: {pval} while an identical fit of a pristine twin "
                                f"{'returned' if tst == 'ok' else 'raised ' + type(tval).__name__}", desc)
            if pst == "exc":
                fitted = False
                probes.hit("fit-raised-under-fault")
                continue
            if tst == "exc":
                if fired:
                    fitted = False
                    continue
                raise Violation(f"C13|{tag}|fit-outcome-differs-between-identical-fits|{method}",
                                f"pristine twin {method} raised {type(tval).__name__}: {tval} while the primary returned", desc)
            fitted = True
            fit_method = method
            # the objects handed to this fit stay the caller's: re-checked after every later call on the primary
            held.clear()
            held.update(last_fit_objects)
            # oracle 4: same seed, same model (the twin was fitted under a different global RNG state / schedule)
            if not (fault and fired):
                d = _fitted_diff(case, primary, twin, max(1e-9, _out_tol(case, ctx) if not ctx.interp else 1e-9))
                if d:
                    raise Violation(_repro_sig(case, f"C13|{tag}|same-seed-different-model"),
                                    f"two {method} calls with identical parameters and data (global numpy RNG seeded differently) "
                                    f"disagree: {d}", desc)
                if method == "fit_transform" and case.has_transform is not None:
                    if not A.same(pval, tval, _out_tol(case, ctx)):
                        raise Violation(_repro_sig(case, f"C13|{tag}|same-seed-different-output|fit_transform"),
                                        f"fit_transform outputs of two identical fits differ: {A.describe_diff(pval, tval)}", desc)
                probes.hit("same-model-checked")
                note_model(f"fit{opi}", {k: v for k, v in sorted(case.fitted_state(primary).items())
                                         if isinstance(v, (np.ndarray, dict, list, tuple, float, int, str)) or hasattr(v, "tocsr")})
            else:
                # a fit that *returned* although a fault fired inside it (e.g. a short reader): state is what it is;
                # later transforms are compared against a twin fitted fault-free, so drop expectations
                fitted = False
            memo.clear()
            continue

        # ---- transform of batch b
        b = tape.draw("h.batch", len(batches))
        ids = batches[b]
        alt = bool(can_alt_vectors and tape.chance("h.alt_vectors", 1, 4))
        if alt:
            probes.hit("transform-with-second-vector-table")
            b = (b, "alt")
        if b not in memo:
            twin, t_objs, tst, tval, tinfo = fresh_fit(fit_method, "twin", seed_b + 100 + opi)
            if tst == "exc":
                raise Violation(f"C13|{tag}|fit-outcome-differs-between-identical-fits|{fit_method}",
                                f"pristine twin {fit_method} raised {type(tval).__name__}: {tval} although the primary's identical fit returned", desc)
            d = _fitted_diff(case, primary, twin, max(1e-9, _out_tol(case, ctx) if not ctx.interp else 1e-9)) if not memo and not any(o.get("fired") for o in ops_log) else None
            if d:
                raise Violation(_repro_sig(case, f"C13|{tag}|transform-changed-fitted-state-or-same-seed-different-model"),
                                f"fitted attributes of the primary differ from a fresh identical fit: {d}", desc)
            X, kw = case.build(ids, alt_vectors=True) if alt else case.build(ids)
            case._n_for_call = len(ids)
            st, val, info = rig.call(twin, t_objs, "transform", lambda X_, kw_: case.call_transform(twin, X_, kw_), X, kw,
                                     role="twin", is_generator=is_gen)
            memo[b] = (st, val if st == "ok" else type(val).__name__, info, str(val)[:200] if st == "exc" else "")
            # the same single call in a pristine interpreter state (see _start_pristine_server)
            if st == "ok" and _st.get("iso") is not None and not is_gen and tape.chance("h.isolated_twin", 1, 2) \
                    and not case.is_arpack_degenerate(cur_train):
                res = _ask_isolated(case, cur_train, ids, fit_method, alt)
                if res is not None:
                    if res[0] == "harness":
                        raise HarnessError("isolated twin: " + str(res[1]))
                    probes.hit("isolated-twin-compared")
                    if res[0] != "ok":
                        raise Violation(f"C13|{tag}|single-call-outcome-depends-on-process-state",
                                        f"transform of batch B{b} returned in this interpreter (history {[o['op'] for o in ops_log]}) "
                                        f"but the same fit + single transform in a pristine interpreter state gave {res}", desc)
                    mine = case.rows(val, len(ids))
                    if len(mine) != len(res[1]) or not all(A.row_same(x, y, _out_tol(case, ctx)) for x, y in zip(mine, res[1])):
                        raise Violation(f"C13|{tag}|single-call-output-depends-on-process-state",
                                        f"a pristine twin's single transform of batch B{b} in this interpreter (after the history "
                                        f"{[o['op'] for o in ops_log]}) differs from the same fit + single transform performed in a "
                                        f"pristine interpreter state: process-global state leaks between calls", desc)
        mst, mval, minfo, mtext = memo[b]
        fault = draw_fault("transform", minfo, len(ids))
        pst, pval, pinfo, fired = primary_call("transform", ids, "transform", fault, alt)
        ops_log.append({"op": f"transform(B{b if not alt else str(b[0]) + 'alt'},n={len(ids)})", "fault": fault[3] if fault else None, "fired": fired,
                        "outcome": pst if pst == "ok" else type(pval).__name__})
        hist_kinds.append("transform" + ("+" + fault[0] if fault and fired else ""))
        if any(o.get("fired") and o["op"].startswith("transform") for o in ops_log[:-1]):
            probes.hit("transform-after-faulted-transform")
        if fault is not None and fault[0] == "reader" and fired:
            # a reader that failed or ended early delivered a different input than the memo's
            probes.hit("transform-with-faulty-reader:" + pst)
        elif fault is not None and fault[0] == "data":
            # the primary was given a *different* (invalid) input: its value is not comparable with the memo of
            # the valid batch; what matters is that later calls still agree (and oracles 1/2, applied above)
            probes.hit("transform-with-invalid-item:" + pst)
        elif pst == "ok":
            if mst == "ok":
                if not A.same(pval, mval, _out_tol(case, ctx)):
                    sfx = "|after-fault" if any(o.get("fired") for o in ops_log) else ""
                    raise Violation(_repro_sig(case, f"C13|{tag}|transform-differs-from-single-call{sfx}"),
                                    f"transform of batch B{b} at step {opi} of the history {[o['op'] for o in ops_log]} differs from a pristine "
                                    f"twin's single call: {A.describe_diff(pval, mval)}", desc)
                probes.hit("memo-compared")
                if not any(o.get("fired") for o in ops_log):
                    note_model(f"transform{opi}", pval)
            elif not fired:
                raise Violation(f"C13|{tag}|transform-outcome-depends-on-history",
                                f"transform of batch B{b} returned at step {opi} but a pristine twin's single call raised {mval}: {mtext}", desc)
        else:
            if not fired and not (mst == "exc" and mval == type(pval).__name__):
                raise Violation(f"C13|{tag}|transform-outcome-depends-on-history",
                                f"transform of batch B{b} raised {type(pval).__name__}: {pval} at step {opi} of {[o['op'] for o in ops_log]} "
                                f"but a pristine twin's single call {'returned' if mst == 'ok' else 'raised ' + str(mval)}", desc)
            probes.hit("transform-raised")

    fired_kinds = sorted({k for k in faults})
    nontrivial = bool(fired_kinds)
    return {"desc": desc, "probes": probes, "faults": faults,
            "sched": dict(rig.sched_stats, steps=rig.steps + rig.sched_stats.get("steps", 0)),
            "digest": None, "nontrivial": nontrivial,
            "signature_of_case": (tag, tuple(hist_kinds), tuple(fired_kinds)),
            "outcome_digest": repr([(o["op"], o["fault"], o["fired"], o["outcome"]) for o in ops_log]),
            "model_digest": model_h.hexdigest()[:20], "family": tag}
