"""C04 layer L2 -- the whole co-occurrence build pipeline under the simulator.

System: chunker -> n_threads build tasks (kernel feeding one CooArray per window)
-> reducer -> (normalise, threshold, n_iter x {EM tasks -> reducer}).  The simulator
is dask's scheduler (dsim.daskseam.SimGet): pool size, start order and every
line-level interleaving of the running tasks are drawn from the tape.

Oracles
  * per build task (interp): the matrix the task returned equals the sum of the events
    that task appended (coo_append is wrapped by a recorder: the storage seam);
  * whole build (interp, n_iter=0, epsilon=0): final matrix = sum of all logged events;
  * chunk boundaries partition the documents;
  * schedule / knob independence: outcome (matrices or exception class) equals that of the
    reference configuration: n_threads=1, 1 GiB, real threshold, buffers large enough
    never to compact or grow, no simulator.
"""
import importlib
import importlib.util
import os
import sys
import threading

import numpy as np
import scipy.sparse

from ..common import Violation, Probes, HarnessError
from ..sched import Scheduler, StepCapExceeded, python_methods_of
from ..daskseam import SimGet

_st = {}
_tls = threading.local()

KINDS = ("token", "timed", "multiset", "ngram")
KERNEL_MODULES = {
    "token": "token_cooccurrence_vectorizer",
    "timed": "timed_token_cooccurrence_vectorizer",
    "multiset": "multi_token_cooccurence_vectorizer",
    "ngram": "ngram_token_cooccurence_vectorizer",
}
CLASS_NAMES = {
    "token": "TokenCooccurrenceVectorizer",
    "timed": "TimedTokenCooccurrenceVectorizer",
    "multiset": "MultiSetCooccurrenceVectorizer",
    "ngram": "NgramCooccurrenceVectorizer",
}
INTERP_LIMITS = (4, 7, 16, 64, 65536)


# --------------------------------------------------------------------------- setup
def _load_reference_package(ctx):
    """jit + hook: a second copy of the package compiled with the real threshold."""
    saved = {k: os.environ.pop(k, None) for k in ("VECTORIZERS_VERIF", "VECTORIZERS_VERIF_COO_QUICKSORT_LIMIT")}
    try:
        pkg_dir = os.path.join(ctx.repo, "vectorizers")
        spec = importlib.util.spec_from_file_location("vectorizers_ref", os.path.join(pkg_dir, "__init__.py"),
                                                      submodule_search_locations=[pkg_dir])
        mod = importlib.util.module_from_spec(spec)
        sys.modules["vectorizers_ref"] = mod
        spec.loader.exec_module(mod)
    finally:
        for k, v in saved.items():
            if v is not None:
                os.environ[k] = v
    cu = importlib.import_module("vectorizers_ref.coo_utils")
    if cu.COO_QUICKSORT_LIMIT != 1 << 16:
        raise HarnessError("reference package did not get the real threshold")
    return mod


def setup(ctx):
    import vectorizers
    import vectorizers.coo_utils as cu
    _st["pkg"] = vectorizers
    _st["cu"] = cu
    _st["ctx"] = ctx
    _st["classes"] = {k: getattr(vectorizers, CLASS_NAMES[k]) for k in KINDS}
    _st["ref_classes"] = _st["classes"]
    _st["ref_cu"] = cu
    base = importlib.import_module("vectorizers.base_cooccurrence_vectorizer")
    multi = importlib.import_module("vectorizers.multi_token_cooccurence_vectorizer")
    _st["probes"] = Probes()

    # capture each build task's argument and result (python-level method: works in both modes)
    for cls in (base.BaseCooccurrenceVectorizer, multi.MultiSetCooccurrenceVectorizer):
        orig = cls.__dict__["_build_coo"]

        def wrapped(self, *args, _orig=orig, **kwargs):
            # signature-agnostic: the tree under test may have added parameters
            rec = _st.get("rec")
            if rec is None or getattr(self, "_dsim_role", None) not in ("test", "ref"):
                return _orig(self, *args, **kwargs)
            token_sequences = kwargs.get("token_sequences", args[0] if args else ())
            _tls.events = []
            try:
                r = _orig(self, *args, **kwargs)
            finally:
                ev = _tls.events
                _tls.events = None
            rec["tasks"].append({"n_docs": len(token_sequences), "events": ev, "result": r})
            return r

        wrapped.__wrapped__ = orig
        cls._build_coo = wrapped

        origc = cls.__dict__.get("_generate_chunk_boundaries")
        if origc is not None:
            def wrappedc(self, data, n_threads, *args, _orig=origc, **kwargs):
                r = _orig(self, data, n_threads, *args, **kwargs)
                rec = _st.get("rec")
                if rec is not None and getattr(self, "_dsim_role", None) == "test":
                    rec["chunks"].append((len(data), list(r)))
                return r
            wrappedc.__wrapped__ = origc
            cls._generate_chunk_boundaries = wrappedc

    if ctx.interp:
        pr = _st["probes"]
        # storage seam: what goes in must come out
        # every name bound to coo_utils.coo_append -- in coo_utils itself and in the kernel modules, whatever they call
        # it -- is replaced by the recorder.  A tree that appends through some other function is not an error of the
        # tree: the log is validated against the reference execution of every run (see run()) and the event-log
        # oracles are switched off for runs in which it is not a complete record.
        orig_append = cu.coo_append

        def logged(coo, tup, _orig=orig_append):
            ev = getattr(_tls, "events", None)
            if ev is not None:
                ev.append((int(tup[0]), int(tup[1]), float(tup[2])))
            return _orig(coo, tup)

        mods = [cu] + [importlib.import_module("vectorizers." + KERNEL_MODULES[k]) for k in KINDS]
        for m in mods:
            for name, val in list(vars(m).items()):
                if val is orig_append:
                    setattr(m, name, logged)
        for name in ("coo_sum_duplicates", "merge_all_sum_duplicates", "coo_increase_mem"):
            orig = getattr(cu, name)

            def counted(coo, _orig=orig, _name=name):
                pr.hit("path." + _name)
                return _orig(coo)

            setattr(cu, name, counted)
    else:
        if ctx.hook_limit:
            ref = _load_reference_package(ctx)
            _st["ref_classes"] = {k: getattr(ref, CLASS_NAMES[k]) for k in KINDS}
            _st["ref_cu"] = importlib.import_module("vectorizers_ref.coo_utils")
            if int(cu.COO_QUICKSORT_LIMIT) != int(ctx.hook_limit):
                raise HarnessError(f"hook not in effect: limit {cu.COO_QUICKSORT_LIMIT} != {ctx.hook_limit}")


def _tiny_corpus(kind):
    docs = [["a", "b", "a", "c", "b", "a"], ["c", "a", "b", "b"]]
    return _encode(kind, docs, multi=1)


def _encode(kind, docs, multi=1, times=None):
    if kind in ("token", "ngram"):
        return [list(d) for d in docs]
    if kind == "timed":
        out = []
        for di, d in enumerate(docs):
            t = 0.0
            seq = []
            for i, tok in enumerate(d):
                t += times[di][i] if times is not None else 1.0
                seq.append([tok, t])
            out.append(seq)
        return out
    # multiset: each document is a sequence of multisets of `multi` tokens
    out = []
    for d in docs:
        seq = [list(d[i:i + multi]) for i in range(0, len(d), multi)]
        out.append(seq)
    return out


# --------------------------------------------------------------------------- generation
def _draw_docs(tape, n_docs, max_len, vocab, bulk_seed=None, zipf=False):
    docs = []
    if bulk_seed is None:
        # corpus shape: mixed lengths, all documents of one length (chunk boundaries then fall exactly on the
        # multiples of total / n_threads), or one long document among tiny ones (very uneven chunks)
        shape = tape.weighted("l2.corpus_shape", [(5, "mixed"), (2, "equal"), (1, "one-long")])
        eq_len = tape.between("l2.eq_len", 1, 25) if shape == "equal" else None
        for di in range(n_docs):
            if shape == "equal":
                n = eq_len
            elif shape == "one-long":
                n = tape.between("l2.doclen", 30, max_len) if di == n_docs // 2 else tape.between("l2.doclen", 0, 2)
            else:
                lk = tape.weighted("l2.doclen_kind", [(1, "empty"), (2, "one"), (6, "short"), (4, "long")])
                n = {"empty": 0, "one": 1}.get(lk)
                if n is None:
                    n = tape.between("l2.doclen", 2, 12) if lk == "short" else tape.between("l2.doclen", 13, max_len)
            docs.append(["t%d" % tape.draw("l2.tok", vocab) for _ in range(n)])
    else:
        rs = np.random.RandomState(bulk_seed)
        for _ in range(n_docs):
            n = int(rs.randint(max_len // 2, max_len + 1))
            if zipf:
                ids = np.minimum(rs.zipf(1.3, size=n) - 1, vocab - 1)
            else:
                ids = rs.randint(0, vocab, size=n)
            docs.append(["t%d" % i for i in ids])
    return docs


def _draw_spec(tape, ctx):
    params = getattr(ctx, "cfg", {}).get("params", {})
    big = bool(params.get("big"))
    s = {}
    kinds = params.get("kinds")
    if kinds:
        s["kind"] = tape.choice("l2.kind", list(kinds))
    else:
        s["kind"] = tape.weighted("l2.kind", [(3, "token"), (2, "timed"), (3, "multiset"), (2, "ngram")])
    kind = s["kind"]
    max_wide = params.get("max_wide")
    if max_wide:
        # jit: numba specialises on the number of windows; keep the set of type-shapes small per worker
        pats = [["after"], ["before"], ["directional"], ["after", "before"], ["before", "before"]]
        if max_wide >= 3:
            pats += [["directional", "after"], ["after", "after", "before"]]
        s["orient"] = list(tape.choice("l2.orient_pattern", pats))
        n_win = len(s["orient"])
    else:
        n_win = tape.weighted("l2.n_win", [(5, 1), (3, 2), (1, 3)])
        s["orient"] = [tape.choice("l2.orient", ["after", "before", "directional"]) for _ in range(n_win)]
    s["radii"] = [tape.weighted("l2.radius", [(4, 1), (4, 2), (3, 3), (2, 5), (1, 6), (1, 0)]) for _ in range(n_win)]
    kernels = ("flat", "geometric") if kind in ("timed", "multiset") else ("flat", "harmonic", "geometric")
    if params.get("kernels"):
        kernels = tuple(k for k in kernels if k in params["kernels"]) or kernels[:1]
    s["kernel"] = tape.weighted("l2.kernel", [(3, kernels[0])] + [(1, k) for k in kernels[1:]])
    s["window_function"] = tape.weighted("l2.winfn", [(4, "fixed"), (1, "variable")])
    s["normalize_windows"] = tape.chance("l2.normwin", 1, 3)
    mw = tape.weighted("l2.mix", [(3, None), (1, "drawn")])
    s["mix_weights"] = None if mw is None else [tape.choice("l2.mixw", [1.0, 2.0, 0.5]) for _ in range(n_win)]
    ka = tape.weighted("l2.kargs", [(5, None), (1, "normalize"), (1, "offset")])
    if kind == "multiset" and ka == "offset":
        ka = None
    s["kernel_args"] = None if ka is None else ({"normalize": True} if ka == "normalize" else {"offset": 1})
    s["n_threads"] = tape.weighted("l2.n_threads", [(2, 1), (4, 2), (3, 3), (2, 4), (1, 5), (1, 7), (1, 8), (1, 11), (2, 16)])
    s["n_iter"] = tape.weighted("l2.n_iter", [(6, 0), (2, 1), (1, 2), (1, 3)])
    s["epsilon"] = tape.weighted("l2.epsilon", [(6, 0), (1, 1.3e-3), (1, 0.0517), (1, 0.293)])
    if big:
        s["n_iter"] = 0 if s["n_iter"] != 1 else 1
    mask = tape.weighted("l2.mask", [(4, "none"), (1, "mask"), (1, "nullify")])
    if params.get("masks") and mask not in params["masks"]:
        mask = params["masks"][0]
    s["mask"] = mask
    if params.get("no_em"):
        s["n_iter"] = 0
    if not ctx.interp and s["n_iter"] > 0:
        # compiled em_update_matrix reads past col_ind when epsilon removed a context (a C10/C11 matter whose
        # outcome depends on heap contents): keep it out of the C04 comparison
        s["epsilon"] = 0
    if kind == "ngram":
        s["ngram_size"] = tape.weighted("l2.ngram", [(1, 1), (2, 2), (1, 3)])
    # memory: '1k' upward, log-uniform
    mk = tape.weighted("l2.mem", [(4, "tiny"), (3, "small"), (2, "mid"), (2, "default")])
    if mk == "tiny":
        byts = tape.between("l2.bytes", 1024, 4096)
    elif mk == "small":
        byts = 1024 * tape.between("l2.kb", 4, 256)
    elif mk == "mid":
        byts = 1024 * tape.between("l2.kb", 256, 65536 if big else 4096)
    else:
        byts = 1 << 30
    s["coo_initial_memory"] = f"{byts / 1024:.6f}k"
    s["op"] = tape.weighted("l2.op", [(4, "fit_transform"), (2, "fit+transform"), (4, "fit-small+transform-large")])
    # corpus
    if not big:
        vocab = tape.weighted("l2.vocab", [(1, 1), (2, 2), (3, 4), (3, 8), (2, 30)])
        n_docs = tape.between("l2.n_docs", 1, 12)
        max_len = 60
        docs = _draw_docs(tape, n_docs, max_len, vocab)
        if s["op"] == "fit-small+transform-large":
            k = tape.between("l2.small_docs", 1, max(1, min(3, n_docs)))
            small = docs[:k]
            rep = tape.between("l2.repeat", 1, 6)
            large = docs * rep + _draw_docs(tape, tape.between("l2.extra_docs", 0, 4), max_len, vocab + 2)
        else:
            small, large = docs, docs
    else:
        # 60000: a vocabulary for which the composite sort key col + (n_windows * V + 1) * row exceeds 2**32
        vocab = tape.weighted("l2.vocab", [(2, 20), (2, 50), (2, 300), (2, 3000), (1, 60000)])
        if params.get("wide_vocab"):
            # dedicated layer: the vocabulary is learned from the whole corpus and two windows are used, so that
            # (n_windows * V + 1) * V > 2**32
            vocab = 60000
            s["op"] = tape.choice("l2.op_wide", ["fit_transform", "fit+transform"])
            s["orient"] = ["directional"]
            s["radii"] = [tape.choice("l2.radius_wide", [1, 2, 3])]
            s["mix_weights"] = None
            s["kernel_args"] = None
            s["normalize_windows"] = False
            s["kernel"] = "flat"
        n_docs = tape.between("l2.n_docs", 2, 40)
        total = tape.choice("l2.total", [20000, 40000, 80000, 200000])
        if vocab == 60000:
            total = 200000
        bulk = tape.subtape_seed("l2.corpus_seed")
        docs = _draw_docs(tape, n_docs, max(4, 2 * total // n_docs), vocab, bulk_seed=bulk,
                          zipf=tape.chance("l2.zipf", 1, 2) and vocab != 60000)
        if s["op"] == "fit-small+transform-large":
            small = [d[: max(3, len(d) // 40)] for d in docs[: max(1, n_docs // 8)]]
            large = docs
        else:
            small, large = docs, docs
        s["radii"] = [min(r, 5) for r in s["radii"]]
    s["multi"] = tape.between("l2.multi", 1, 3) if kind == "multiset" else 1
    times = None
    if kind == "timed":
        tsel = tape.choice("l2.times", ["unit", "dyadic"])
        if tsel == "unit" or big:
            times = None
        else:
            times = "dyadic"
    s["times"] = times
    s["_small"], s["_large"] = small, large
    s["n_docs_fit"], s["n_docs_transform"] = len(small), len(large)
    s["tokens_fit"] = sum(len(d) for d in small)
    s["tokens_transform"] = sum(len(d) for d in large)
    s["vocab"] = vocab
    if ctx.interp:
        s["limit"] = tape.choice("l2.limit", INTERP_LIMITS)
    else:
        s["limit"] = int(_st["cu"].COO_QUICKSORT_LIMIT)
    return s


def _times_for(docs, mode):
    if mode is None:
        return None
    # deterministic dyadic increments (0.5, 1, 2) derived from position, times a per-document time scale
    # (bursty and slow documents: the mean inter-arrival time differs from chunk to chunk): no tape needed
    return [[(0.5, 1.0, 2.0)[(i * 7 + di * 3) % 3] * (1.0, 0.125, 16.0)[(di * 5 + len(d)) % 3] for i in range(len(d))]
            for di, d in enumerate(docs)]


def _build(spec, classes, reference):
    kind = spec["kind"]
    n_win = len(spec["radii"])
    kw = dict(
        window_radii=list(spec["radii"]),
        window_orientations=list(spec["orient"]),
        window_functions=[spec["window_function"]] * n_win,
        kernel_functions=[spec["kernel"]] * n_win,
        normalize_windows=spec["normalize_windows"],
        mix_weights=None if spec["mix_weights"] is None else list(spec["mix_weights"]),
        kernel_args=None if spec["kernel_args"] is None else [dict(spec["kernel_args"]) for _ in range(n_win)],
        n_iter=spec["n_iter"],
        epsilon=spec["epsilon"] if not reference else spec.get("_ref_epsilon", spec["epsilon"]),
        n_threads=1 if reference else spec["n_threads"],
        coo_initial_memory="1 GiB" if reference else spec["coo_initial_memory"],
    )
    if spec["mask"] != "none":
        kw.update(mask_string="[M]", min_occurrences=2, nullify_mask=spec["mask"] == "nullify")
    if kind == "ngram":
        kw["ngram_size"] = spec["ngram_size"]
    return classes[kind](**kw)


def _execute(spec, reference):
    """Returns ("ok", [matrices]) or ("exc", ExcTypeName, repr)."""
    classes = _st["ref_classes"] if reference else _st["classes"]
    kind = spec["kind"]
    Xs = _encode(kind, spec["_small"], spec["multi"], _times_for(spec["_small"], spec["times"]))
    Xl = _encode(kind, spec["_large"], spec["multi"], _times_for(spec["_large"], spec["times"]))
    try:
        est = _build(spec, classes, reference)
        est._dsim_role = "ref" if reference else "test"
        outs = []
        if spec["op"] == "fit_transform":
            outs.append(est.fit_transform(Xl))
        else:
            est.fit(Xs)
            outs.append(est.cooccurrences_)
            if reference:
                # buffers large enough that the reference never compacts or grows
                # (the real threshold still applies to its tail, so keep volume in mind)
                r = max(spec["radii"]) + 1
                bound = spec["tokens_transform"] * r * max(1, spec["multi"]) + 64
                est._coo_sizes = np.maximum(est._coo_sizes, bound)
            outs.append(est.transform(Xl))
        if not reference:
            _st["last_sizes"] = [int(x) for x in est._coo_sizes]
        return ("ok", [o.tocsr().copy() for o in outs])
    except (Violation, StepCapExceeded, HarnessError):
        raise
    except Exception as e:  # outcome, compared between configurations
        import traceback
        return ("exc", type(e).__name__, "".join(traceback.format_exception_only(type(e), e)).strip()[:300])


def _close(a, b, exact, em):
    if a.shape != b.shape:
        return False, f"shape {a.shape} != {b.shape}"
    d = (a - b).tocoo()
    if d.nnz == 0:
        return True, ""
    if exact:
        bad = np.flatnonzero(d.data != 0)
        if bad.size == 0:
            return True, ""
        i = bad[0]
        return False, f"{bad.size} cells differ (exact arithmetic expected), e.g. [{d.row[i]},{d.col[i]}]: {a[d.row[i], d.col[i]]} vs {b[d.row[i], d.col[i]]}"
    av = np.asarray(a[d.row, d.col]).ravel()
    bv = np.asarray(b[d.row, d.col]).ravel()
    rtol, atol = (2e-3, 1e-5) if em else (2e-4, 1e-6)
    tol = rtol * np.maximum(np.abs(av), np.abs(bv)) + atol
    bad = np.flatnonzero(np.abs(av - bv) > tol)
    if bad.size == 0:
        return True, ""
    i = bad[0]
    return False, f"{bad.size} cells differ beyond float32 summation tolerance, e.g. [{d.row[i]},{d.col[i]}]: {av[i]} vs {bv[i]}"


def _warm(spec):
    """jit: compile this type-shape of the kernels outside the tracer (numba specialises on the
    number of windows, the kernel function, None-vs-int mask, argument tuple types)."""
    key = (spec["kind"], tuple(spec["orient"]), spec["kernel"], spec["mask"], repr(spec["kernel_args"]),
           spec["n_iter"] > 0, spec.get("ngram_size"), spec["window_function"], spec["mix_weights"] is None)
    warmed = _st.setdefault("warmed", set())
    if key in warmed:
        return
    warmed.add(key)
    tiny = dict(spec)
    docs = [["t0", "t1", "t0", "t0", "t1", "t2", "t0", "t1"], ["t1", "t0", "t0", "t2", "t2", "t1"]]
    tiny.update(_small=docs, _large=docs, n_threads=1, op="fit+transform", tokens_transform=14, tokens_fit=14,
                n_iter=min(1, spec["n_iter"]), epsilon=0)
    saved = _st.get("rec")
    _st["rec"] = None
    try:
        _execute(tiny, reference=False)
    finally:
        _st["rec"] = saved


def _public(spec):
    return {k: v for k, v in spec.items() if not k.startswith("_")}


def _task_dicts(t):
    """(appended mass per cell, returned mass per cell or None when the task's result is not a matrix)."""
    agg = {}
    for r, c, v in t["events"]:
        agg[(r, c)] = agg.get((r, c), 0.0) + v
    got = t["result"]
    if scipy.sparse.issparse(got):
        g = got.tocoo()
        gd = {}
        for r, c, v in zip(g.row.tolist(), g.col.tolist(), g.data.tolist()):
            gd[(r, c)] = gd.get((r, c), 0.0) + v
    elif isinstance(got, (int, float)) and got == 0:
        gd = {}
    else:
        gd = None
    return agg, gd


def _log_matches(tasks, exact):
    for t in tasks:
        agg, gd = _task_dicts(t)
        if gd is not None and _dict_diff(agg, gd, exact):
            return False
    return True


# --------------------------------------------------------------------------- run
def run(tape, ctx):
    import dask
    cu = _st["cu"]
    probes = Probes()
    spec = _draw_spec(tape, ctx)
    kind = spec["kind"]
    desc = _public(spec)
    tag = f"L2-{ctx.mode}"
    exact = (spec["kernel"] == "flat" and not spec["normalize_windows"] and spec["kernel_args"] is None
             and spec["n_iter"] == 0 and spec["epsilon"] == 0)
    em = spec["n_iter"] > 0 or spec["epsilon"] > 0

    # ---- reference configuration (no simulator)
    if ctx.interp:
        cu.COO_QUICKSORT_LIMIT = 1 << 16
    ref_rec = {"tasks": [], "chunks": []}
    _st["rec"] = ref_rec if ctx.interp else None
    try:
        ref = _execute(spec, reference=True)
    finally:
        _st["rec"] = None
    # is the event log a complete record of what this tree appends for this spec?  In the reference configuration
    # (one chunk, no compaction, no growth) a build must return exactly what the recorder saw; if it does not, the
    # tree appends through a path the recorder does not see and the event-log oracles say nothing about it.
    log_ok = ctx.interp and ref[0] == "ok" and _log_matches(ref_rec["tasks"], exact)
    if ctx.interp and ref[0] == "ok" and not log_ok:
        probes.hit("event-log-unobservable")
    if ref[0] == "ok" and spec["epsilon"] > 0:
        # threshold stability: if moving epsilon by +-1e-4 relative changes the reference, some value sits on
        # the threshold and float32 summation order may legitimately flip it -> not comparable
        lo = dict(spec, _ref_epsilon=spec["epsilon"] * (1 - 1e-4))
        hi = dict(spec, _ref_epsilon=spec["epsilon"] * (1 + 1e-4))
        rl, rh = _execute(lo, True), _execute(hi, True)
        stable = rl[0] == rh[0] == "ok" and all(_close(x, y, False, True)[0] and (x != 0).nnz == (y != 0).nnz
                                                 for x, y in zip(rl[1], rh[1]))
        if not stable:
            probes.hit("epsilon-unstable-skipped")
            return {"desc": desc, "probes": probes, "sched": None, "digest": None, "nontrivial": False,
                    "known_outcomes": ["epsilon-threshold-unstable"]}

    # ---- configuration under test, under the simulator
    if not ctx.interp:
        _warm(spec)
    if ctx.interp:
        cu.COO_QUICKSORT_LIMIT = spec["limit"]
        _st["probes"].clear()
    sched = Scheduler(tape, ctx.trace_roots, step_cap=getattr(ctx, "cfg", {}).get("params", {}).get("step_cap", 3_000_000))
    # python-level methods of the estimator class (whatever they are on the tree under test) are pre-empted at
    # instruction granularity; kernels (interp mode) at line granularity
    simget = SimGet(sched, tape, instr_codes=python_methods_of(_st["classes"][kind], ctx.trace_roots))
    rec = {"tasks": [], "chunks": []}
    _st["rec"] = rec
    try:
        with dask.config.set(scheduler=simget):
            out = _execute(spec, reference=False)
    finally:
        _st["rec"] = None
        if ctx.interp:
            cu.COO_QUICKSORT_LIMIT = 1 << 16
    st = sched.stats()
    st["pools"] = list(simget.pools)
    desc["sched"] = {"pools": simget.pools, "granularity": sched.runlen_n}
    if ctx.interp:
        probes.merge(_st["probes"])
    if spec["op"] == "fit-small+transform-large" and spec["tokens_transform"] > 2 * spec["tokens_fit"]:
        probes.hit("transform-larger-than-fit")
    if any(a == b for n, ch in rec["chunks"] for (a, b) in ch):
        probes.hit("empty-chunk")
    if sched.max_live >= 2:
        probes.hit("concurrent-tasks")
    if out[0] == "ok" and spec["kernel"] == "flat":
        # estimated event volume per window per chunk (flat kernel: ~ tokens x radius x multiset size)
        sizes = _st.get("last_sizes") or []
        r_w = []
        for r, o in zip(spec["radii"], spec["orient"]):
            r_w.extend([r, r] if o == "directional" else [r])
        chunks = max(1, min(spec["n_threads"], spec["n_docs_transform"]))
        for r, cap in zip(r_w, sizes):
            ev = spec["tokens_transform"] * r * max(1, spec["multi"]) * 0.8 / chunks
            if ev >= spec["limit"]:
                probes.hit("est.sort-threshold-reached")
            if ev >= 8 * spec["limit"]:
                probes.hit("est.8-sort-rounds")
            if ev > cap:
                probes.hit("est.volume>capacity")
            if spec["limit"] >= 65536 and ev >= spec["limit"]:
                probes.hit("est.real-threshold-reached")
            if spec["limit"] >= 65536 and ev >= spec["limit"] and ev > cap:
                probes.hit("est.real-threshold-growth")

    known_outcomes = []
    # ---- outcome comparison
    if out[0] == "exc" or ref[0] == "exc":
        if out[0] == "exc" and ref[0] == "exc":
            if out[1] == ref[1]:
                known_outcomes.append(f"both-raise:{out[1]}:{out[2][:80]}")
                return {"desc": desc, "probes": probes, "sched": st, "digest": sched.digest(), "nontrivial": False,
                        "known_outcomes": known_outcomes}
            raise Violation(f"C04|{tag}|different-exception|{kind}",
                            f"configuration under test raised {out[1]} ({out[2]}), reference raised {ref[1]} ({ref[2]})", desc)
        if out[0] == "exc":
            raise Violation(f"C04|{tag}|exception-only-under-config:{out[1]}|{kind}",
                            f"n_threads={spec['n_threads']} coo_initial_memory={spec['coo_initial_memory']} limit={spec['limit']} "
                            f"raised {out[2]}; the reference configuration returned a matrix", desc)
        raise Violation(f"C04|{tag}|exception-only-in-reference:{ref[1]}|{kind}",
                        f"reference configuration raised {ref[2]}; configuration under test returned a matrix", desc)

    # ---- chunk boundaries partition the documents
    for n, ch in rec["chunks"]:
        ok = len(ch) > 0 and ch[0][0] == 0 and ch[-1][1] == n and all(ch[i][1] == ch[i + 1][0] for i in range(len(ch) - 1)) \
            and all(a <= b for a, b in ch)
        if not ok:
            raise Violation(f"C04|{tag}|chunks-not-a-partition|{kind}", f"{n} documents chunked as {ch}", desc)

    # ---- storage seam (interp): every build task returns exactly what it appended
    if ctx.interp and log_ok:
        probes.hit("event-log-checked")
        for ti, t in enumerate(rec["tasks"]):
            agg, gd = _task_dicts(t)
            if gd is not None:
                msg = _dict_diff(agg, gd, exact)
                if msg:
                    raise Violation(f"C04|{tag}|task-output-differs-from-appended-events|{kind}",
                                    f"build task #{ti} ({t['n_docs']} docs, {len(t['events'])} events): {msg}", desc)
        # whole build: only the tasks of the last build (fit+transform builds twice)
        if spec["n_iter"] == 0 and spec["epsilon"] == 0:
            n_builds = 1 if spec["op"] == "fit_transform" else 2
            per_build = _split_builds(rec, n_builds)
            if per_build is not None:
                for bi, tasks in enumerate(per_build):
                    agg = {}
                    for t in tasks:
                        for r, c, v in t["events"]:
                            agg[(r, c)] = agg.get((r, c), 0.0) + v
                    m = out[1][bi].tocoo()
                    gd = {}
                    for r, c, v in zip(m.row.tolist(), m.col.tolist(), m.data.tolist()):
                        gd[(r, c)] = gd.get((r, c), 0.0) + v
                    msg = _dict_diff(agg, gd, exact)
                    if msg:
                        raise Violation(f"C04|{tag}|result-differs-from-all-appended-events|{kind}",
                                        f"build #{bi}: {msg}", desc)

    # ---- schedule / knob independence against the reference configuration
    for bi, (a, b) in enumerate(zip(out[1], ref[1])):
        ok, msg = _close(a, b, exact, em)
        if not ok:
            stage = "fit" if (bi == 0 and len(out[1]) == 2) else ("transform" if len(out[1]) == 2 else "fit_transform")
            raise Violation(f"C04|{tag}|differs-from-reference-configuration|{kind}",
                            f"{stage} output with n_threads={spec['n_threads']} coo_initial_memory={spec['coo_initial_memory']} "
                            f"limit={spec['limit']} pools={simget.pools}: {msg}", desc)

    events = sum(len(t["events"] or ()) for t in rec["tasks"]) if ctx.interp else None
    if events is not None:
        desc["events"] = events
    nontrivial = (sched.max_live >= 2 and sched.preempt_in_task >= 1) or \
        probes.get("path.coo_increase_mem", 0) > 0 or probes.get("path.merge_all_sum_duplicates", 0) > 0
    if sched.max_live >= 2 and sched.preempt_in_task >= 1:
        probes.hit("interleaved")
    return {"desc": desc, "probes": probes, "sched": st, "digest": sched.digest() if sched.graphs else None,
            "nontrivial": bool(nontrivial), "known_outcomes": known_outcomes,
            "signature_of_case": (kind, spec["n_threads"], spec["coo_initial_memory"], spec["limit"], spec["op"],
                                  spec["tokens_transform"], spec["radii"]) if not sched.graphs else None,
            "outcome_digest": _digest_mats(out[1])}


def _digest_mats(ms):
    import hashlib
    h = hashlib.sha256()
    for m in ms:
        m = m.tocsr()
        m.sort_indices()
        h.update(m.indptr.tobytes())
        h.update(m.indices.tobytes())
        h.update(np.round(m.data.astype(np.float64), 5).tobytes())
    return h.hexdigest()[:16]


def _split_builds(rec, n_builds):
    """Assign recorded build tasks to the fit build and the transform build."""
    tasks = rec["tasks"]
    if n_builds == 1:
        return [tasks]
    if rec["chunks"]:
        # EM chunkings also call _generate_chunk_boundaries; builds come first in each stage
        # n_iter == 0 here, so there is exactly one chunking per build
        if len(rec["chunks"]) != n_builds:
            return None
        sizes = [len(ch) for _, ch in rec["chunks"]]
    else:
        sizes = [1] * n_builds
    if sum(sizes) != len(tasks):
        return None
    out = []
    i = 0
    for s in sizes:
        out.append(tasks[i:i + s])
        i += s
    return out


def _dict_diff(expected, got, exact):
    keys = set(expected) | set(got)
    bad = []
    for k in keys:
        e = expected.get(k, 0.0)
        g = got.get(k, 0.0)
        if exact:
            if e != g:
                bad.append((k, e, g))
        else:
            if abs(e - g) > 2e-4 * max(abs(e), abs(g)) + 1e-6:
                bad.append((k, e, g))
    if not bad:
        return ""
    bad.sort()
    k, e, g = bad[0]
    return f"{len(bad)} cells differ, e.g. cell {k}: appended mass {e} but matrix holds {g}"
