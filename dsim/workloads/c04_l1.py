"""C04 layer L1 -- the accumulator alone, against a map model.

A driver that mirrors the kernels' calling convention
(``coo = coo_append(coo, tup)`` per event, then ``coo_sum_duplicates`` +
``merge_all_sum_duplicates``) feeds a generated event stream into a CooArray
allocated exactly as the kernels allocate it, with a capacity computed by the
estimator's real ``_set_coo_sizes`` from drawn knobs (coo_initial_memory,
n_threads, window radii, fit-corpus size).  Reference model: dict[(row, col)] += val.

interp mode: the threshold is drawn per run (module global), invariants are
checked after every append.  jit mode: the threshold is the worker's hook value
(or the real 65,536), the driver is an @njit loop, invariants every k appends.
"""
import math
import random

import numpy as np

from ..common import Violation, Probes

INTERP_LIMITS = (4, 5, 7, 8, 16, 33, 64, 65536)

_state = {}


def setup(ctx):
    import vectorizers.coo_utils as cu
    from vectorizers import TokenCooccurrenceVectorizer, MultiSetCooccurrenceVectorizer
    _state["cu"] = cu
    _state["classes"] = (TokenCooccurrenceVectorizer, MultiSetCooccurrenceVectorizer)
    _state["probes"] = Probes()
    # allocate the accumulator with the dtypes the kernels use on the tree under test (read from a real kernel call)
    import numba
    probe = TokenCooccurrenceVectorizer(window_radii=1, window_orientations="after")
    probe.fit([["a", "b", "a"]])
    seqs = numba.typed.List([np.array([0, 1, 0], dtype=np.int32)]) if not ctx.interp else [np.array([0, 1, 0], dtype=np.int32)]
    sample = probe._build_skip_grams(seqs)[0]
    dt = {f: getattr(sample, f).dtype for f in ("row", "col", "val", "key", "ind", "min", "depth")}
    _state["dtypes"] = dt
    empty = numba.typed.List.empty_list(numba.int32[::1]) if not ctx.interp else []

    def alloc(cap):
        """A fresh accumulator allocated by the real kernel of the tree under test (dtypes, run-stack length)."""
        probe._coo_sizes = np.array([cap], dtype=np.int64)
        coo = probe._build_skip_grams(empty)[0]
        for f in ("row", "col", "val", "key", "ind", "min", "depth"):
            getattr(coo, f)[...] = 0
        return coo

    _state["alloc"] = alloc
    if ctx.interp:
        # count which compaction paths run (interp: module globals are looked up at call time)
        pr = _state["probes"]
        for name in ("coo_sum_duplicates", "merge_all_sum_duplicates", "coo_increase_mem"):
            orig = getattr(cu, name)

            def wrapped(coo, _orig=orig, _name=name):
                pr.hit("path." + _name)
                r = _orig(coo)
                if _name == "coo_sum_duplicates":
                    d = int(coo.depth[0])
                    if d > _state.get("maxdepth", 0):
                        _state["maxdepth"] = d
                return r

            setattr(cu, name, wrapped)
    else:
        import numba
        CooArray = cu.CooArray
        coo_append = cu.coo_append
        coo_sum_duplicates = cu.coo_sum_duplicates
        merge_all_sum_duplicates = cu.merge_all_sum_duplicates

        @numba.njit(nogil=True)
        def drive(coo, rows, cols, vals, keys, check_every):
            total = 0.0
            grown = 0
            maxdepth = 0
            for n in range(rows.shape[0]):
                before = coo.key.shape[0]
                coo = coo_append(coo, (rows[n], cols[n], vals[n], keys[n]))
                if coo.key.shape[0] != before:
                    grown += 1
                if coo.depth[0] > maxdepth:
                    maxdepth = coo.depth[0]
                total += vals[n]
                if coo.ind[0] >= coo.key.shape[0]:
                    return coo, n, 1, grown, maxdepth
                if check_every > 0 and n % check_every == 0:
                    s = 0.0
                    for j in range(coo.ind[0]):
                        s += coo.val[j]
                    if s != total:
                        return coo, n, 2, grown, maxdepth
            coo_sum_duplicates(coo)
            merge_all_sum_duplicates(coo)
            return coo, rows.shape[0], 0, grown, maxdepth

        _state["drive"] = drive
        # warm-up compile (outside any tracing)
        z = np.zeros(3, dtype=np.int64)
        drive(alloc(64), z.astype(np.int32), z.astype(np.int32), np.ones(3, dtype=np.float32), z, 1)


def _capacity(tape, limit, desc):
    """Capacity as the library would compute it from user-visible knobs."""
    Token, Multi = _state["classes"]
    kind = tape.weighted("l1.sizing", [(3, "token"), (1, "multi")])
    n_win = tape.between("l1.n_windows", 1, 3)
    radii = [tape.weighted("l1.radius", [(6, 1), (4, 2), (4, 5), (2, 0), (2, 13), (1, 30), (1, 60)])
             for _ in range(n_win)]
    orient = [tape.choice("l1.orient", ["after", "before", "directional"]) for _ in range(n_win)]
    n_threads = tape.weighted("l1.n_threads", [(4, 1), (3, 2), (2, 3), (2, 4), (1, 7), (1, 8), (2, 16)])
    # memory: '1k' upward, log-uniform with fine mantissa
    mem_kind = tape.weighted("l1.mem", [(4, "small"), (3, "limit"), (2, "mid"), (1, "huge")])
    n_wide = sum(2 if o == "directional" else 1 for o in orient)
    s_aw = sum(r * (2 if o == "directional" else 1) for r, o in zip(radii, orient))
    if mem_kind == "small":
        byts = tape.between("l1.bytes", 1024, 8192)
    elif mem_kind == "limit":
        # aim per-window capacity near k*limit +- 2
        k = tape.choice("l1.k", [1, 1, 2, 3, 5])
        target = max(1, k * limit + tape.between("l1.delta", -2, 2))
        byts = max(1024, target * 20 * max(1, s_aw) * n_threads // max(1, max(radii)))
    elif mem_kind == "mid":
        byts = 1024 * tape.between("l1.kb", 1, 4096)
    else:
        byts = 1 << 30
    mem = f"{byts / 1024:.6f}k"
    fit_tokens = tape.weighted("l1.fit_tokens", [(3, "few"), (3, "some"), (1, "many")])
    if fit_tokens == "few":
        T = tape.between("l1.T", 1, 12)
    elif fit_tokens == "some":
        T = tape.between("l1.T", 13, 400)
    else:
        T = tape.between("l1.T", 401, 200000)
    cls = Token if kind == "token" else Multi
    est = cls(window_radii=radii, window_orientations=orient, n_threads=n_threads,
              window_functions=["fixed"] * n_win, kernel_functions=["flat"] * n_win,
              coo_initial_memory=mem)
    est._set_mask_indices()
    est._set_full_kernel_args()
    if kind == "token":
        seqs = [np.zeros(T, dtype=np.int64)]
    else:
        m = tape.between("l1.multi", 1, 4)
        seqs = [[np.zeros(m, dtype=np.int64) for _ in range(max(1, T // m))]]
    est._set_coo_sizes(seqs)
    sizes = [int(x) for x in est._coo_sizes]
    w = tape.draw("l1.window", len(sizes))
    desc.update(sizing=kind, radii=radii, orient=orient, n_threads=n_threads, coo_initial_memory=mem,
                fit_tokens=T, coo_sizes=sizes, window=w)
    return sizes[w]


def _stream(tape, limit, cap, desc, interp):
    big = limit >= 65536
    if interp:
        max_len = 3000 if big else 40 * limit
    else:
        max_len = 12 * limit if big else 400 * limit
    lk = tape.weighted("l1.len_kind", [(2, "tiny"), (3, "cap"), (3, "limit"), (3, "long")])
    if lk == "tiny":
        n = tape.between("l1.len", 0, 12)
    elif lk == "cap":
        n = max(0, min(max_len, cap + tape.between("l1.len", -3, 3 + cap)))
    elif lk == "limit":
        n = max(0, min(max_len, tape.choice("l1.lenk", [1, 2, 3, 4, 8]) * limit + tape.between("l1.len", -2, 2)))
    else:
        n = tape.between("l1.len", 0, max_len)
    n_keys = tape.weighted("l1.n_keys", [(2, 1), (2, 2), (2, 3), (2, 7), (2, 40), (2, 1000), (2, 10 ** 6)])
    n_keys = min(n_keys, max(1, 4 * n))
    C = tape.choice("l1.ncols", [1, 2, 3, 10, 1000])
    pattern = tape.choice("l1.pattern", ["random", "ascending", "descending", "runs", "zero", "hot"])
    vals_kind = tape.choice("l1.vals", ["ones", "halves"])
    if n <= 48:
        ids = []
        for _ in range(n):
            ids.append(tape.draw("l1.id", n_keys))
        sub = None
    else:
        sub = tape.subtape_seed("l1.stream_seed")
        rng = random.Random(sub)
        ids = [rng.randrange(n_keys) for _ in range(n)]
    if pattern == "ascending":
        ids.sort()
    elif pattern == "descending":
        ids.sort(reverse=True)
    elif pattern == "runs":
        # long runs of one key: sort then rotate so that runs persist but order is not monotone
        ids.sort()
        h = len(ids) // 3
        ids = ids[h:] + ids[:h]
    elif pattern == "zero":
        ids = [0] * n
    elif pattern == "hot":
        ids = [i if (j % 5 == 0) else 0 for j, i in enumerate(ids)]
    ids = np.asarray(ids, dtype=np.int64)
    rows = (ids // C).astype(np.int32)
    cols = (ids % C).astype(np.int32)
    keys = cols.astype(np.int64) + (C + 1) * rows.astype(np.int64)
    if vals_kind == "ones":
        vals = np.ones(n, dtype=np.float32)
    else:
        rng = random.Random((sub or 0) ^ 0x5EED)
        vals = np.asarray([0.5 * (1 + (rng.randrange(4) if n > 48 else tape.draw("l1.val", 4)))
                           for _ in range(n)], dtype=np.float32)
    desc.update(stream_len=int(n), n_keys=int(n_keys), ncols=C, pattern=pattern, vals=vals_kind)
    return rows, cols, vals, keys


def _aggregate(coo):
    n = int(coo.ind[0])
    agg = {}
    r = coo.row[:n].tolist()
    c = coo.col[:n].tolist()
    v = coo.val[:n].tolist()
    for a, b, x in zip(r, c, v):
        agg[(a, b)] = agg.get((a, b), 0.0) + x
    return agg


def _diff(agg, model):
    lost = {k: model[k] - agg.get(k, 0.0) for k in model if agg.get(k, 0.0) != model[k]}
    extra = {k: agg[k] for k in agg if k not in model and agg[k] != 0.0}
    return lost, extra


def _where(exc):
    tb = exc.__traceback__
    name = "?"
    while tb is not None:
        fn = tb.tb_frame.f_code.co_filename
        if "vectorizers" in fn:
            name = tb.tb_frame.f_code.co_name
        tb = tb.tb_next
    return name


def run(tape, ctx):
    cu = _state["cu"]
    desc = {}
    probes = Probes()
    if ctx.interp:
        limit = tape.choice("l1.limit", INTERP_LIMITS)
        cu.COO_QUICKSORT_LIMIT = limit
    else:
        limit = int(cu.COO_QUICKSORT_LIMIT)
    desc["limit"] = limit
    try:
        cap = _capacity(tape, limit, desc)
    except Exception as e:  # sizing itself failed for legal knobs
        raise Violation(f"C04|L1|sizing-exception:{type(e).__name__}", repr(e), desc)
    desc["cap"] = cap
    rows, cols, vals, keys = _stream(tape, limit, cap, desc, ctx.interp)
    n = len(rows)
    model = {}
    for a, b, x in zip(rows.tolist(), cols.tolist(), vals.tolist()):
        model[(a, b)] = model.get((a, b), 0.0) + x
    if cap < 20:
        probes.hit("cap<20")
    if n > cap:
        probes.hit("volume>capacity")
    if n >= limit:
        probes.hit("volume>=limit")

    if ctx.interp:
        _state["probes"].clear()
        _state["maxdepth"] = 0
        try:
            coo = _state["alloc"](cap)
        except Exception as e:
            raise Violation(f"C04|L1|alloc-exception:{type(e).__name__}", f"cap={cap}: {e!r}", desc)
        total = 0.0
        step = -1
        try:
            for step in range(n):
                prev_ind = int(coo.ind[0])
                prev = coo
                coo = cu.coo_append(coo, (rows[step], cols[step], vals[step], keys[step]))
                total += float(vals[step])
                ind = int(coo.ind[0])
                capn = coo.key.shape[0]
                if coo is not prev:
                    probes.hit("growth")
                if not (0 <= ind < capn):
                    raise Violation("C04|L1|buffer-full-no-growth",
                                    f"after append #{step}: ind={ind} capacity={capn}", desc)
                s = float(np.sum(coo.val[:ind], dtype=np.float64))
                if s != total:
                    raise Violation("C04|L1|lost-event|append",
                                    f"after append #{step}: buffered mass {s} != appended mass {total}", desc)
                if ind != prev_ind + 1 or coo is not prev:
                    probes.hit("compaction-checked")
                    part = {}
                    for a, b, x in zip(rows[:step + 1].tolist(), cols[:step + 1].tolist(), vals[:step + 1].tolist()):
                        part[(a, b)] = part.get((a, b), 0.0) + x
                    lost, extra = _diff(_aggregate(coo), part)
                    if lost or extra:
                        raise Violation("C04|L1|miscredited-event|append",
                                        f"after append #{step}: lost={dict(list(lost.items())[:3])} extra={dict(list(extra.items())[:3])}", desc)
            step = n
            cu.coo_sum_duplicates(coo)
            cu.merge_all_sum_duplicates(coo)
        except Violation:
            raise
        except Exception as e:
            where = _where(e)
            phase = "final-flush" if step == n else "append"
            raise Violation(f"C04|L1|exception:{type(e).__name__}|{phase}|{where}",
                            f"at event #{step} of {n}: {e!r}", desc)
        probes.merge(_state["probes"])
        md = _state["maxdepth"]
    else:
        check_every = tape.choice("l1.check_every", [1, 3, 17, 64, 0]) if n <= 5000 else tape.choice("l1.check_every", [64, 1009, 0])
        try:
            coo, at, code, grown, md = _state["drive"](_state["alloc"](cap), rows, cols, vals, keys, check_every)
        except Exception as e:
            raise Violation(f"C04|L1|exception:{type(e).__name__}|jit", f"{e!r}", desc)
        if grown:
            probes.hit("growth", int(grown))
        if code == 1:
            raise Violation("C04|L1|buffer-full-no-growth",
                            f"after append #{at}: ind={int(coo.ind[0])} capacity={coo.key.shape[0]}", desc)
        if code == 2:
            raise Violation("C04|L1|lost-event|append", f"conservation broke at or before append #{at}", desc)
    if md >= 2:
        probes.hit("depth>=2")
    if md >= 3:
        probes.hit("depth>=3")
    desc["max_depth"] = int(md)
    # final state
    agg = _aggregate(coo)
    lost, extra = _diff(agg, model)
    if lost or extra:
        tot_l = sum(lost.values())
        if lost and not extra:
            kind = "lost-event" if all(v > 0 for v in lost.values()) else "duplicated-event"
        else:
            kind = "miscredited-event"
        raise Violation(f"C04|L1|{kind}|final-flush",
                        f"{len(lost)} cells short (mass {tot_l}), {len(extra)} foreign cells; "
                        f"e.g. lost={dict(list(lost.items())[:3])} extra={dict(list(extra.items())[:3])}", desc)
    if n >= limit:
        probes.hit("run.sorted")
    return {"desc": desc, "probes": probes, "digest": None, "nontrivial": bool(n >= limit or n > cap),
            "signature_of_case": (limit, cap, min(n, 10 ** 9), desc.get("n_keys"), desc.get("pattern"), md)}
