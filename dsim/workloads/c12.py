"""C12 -- each output row depends only on its own input item and the fitted model.

System = one fitted estimator serving a history of transform calls.  A run fits once, then
draws 4-15 operations:
  transform(batch)  batch = sub-multiset of the item pool in drawn order (single items, the whole pool,
                    a permutation, a batch containing the same item twice, the concatenation of two
                    earlier batches, a random subset)
  set_knob          change, on the fitted estimator, a parameter documented as an internal batching
                    size (memory_size, sinkhorn_chunk_size / chunk_size); jit mode also numba thread count
In interp mode every numba.prange loop on the transform path runs under the simulated parallel-for
(dsim.prangeseam): worker count, partition and instruction-level interleaving come from the tape.

Reference model: memo[item] -> row (or exception class), filled by the first call that produces the item.
Oracle after every call: exactly len(batch) rows in batch order; every row equals memo[item]
(shapes must agree); a batch raises iff at least one of its items raises alone.
"""
import importlib

import numpy as np

from ..common import Violation, Probes, HarnessError
from ..sched import StepCapExceeded
from .. import adapters as A
from .. import prangeseam

_st = {}

FAMILIES = [(2, "NgramCase"), (2, "SkipgramCase"), (2, "LZCase"), (3, "BPECase"), (1, "HistogramCase"), (1, "KDECase"),
            (1, "DistributionCase"), (6, "WassersteinCase"), (1, "InfoWeightCase"), (2, "RowDenoiseCase"), (1, "CFCCase"),
            (2, "SlidingWindowCase")]

PRANGE_TARGETS = [("vectorizers.linear_optimal_transport", "chunked_pairwise_distance"),
                  ("vectorizers.linear_optimal_transport", "right_marginal_error_batch"),
                  ("vectorizers.linear_optimal_transport", "sinkhorn_transport_images"),
                  ("vectorizers.mixed_gram_vectorizer", "bpe_encode_all")]


def setup(ctx):
    import vectorizers  # noqa: F401
    _st["ctx"] = ctx
    _st["outlined"] = {}
    if ctx.interp:
        for modname, fn in PRANGE_TARGETS:
            mod = importlib.import_module(modname)
            orig, n = prangeseam.outline(mod, fn)
            _st["outlined"][fn] = n
            if n < 1:
                raise HarnessError(f"no prange loop found in {modname}.{fn}: the outliner needs updating")
        _fidelity_check()


def _fidelity_check():
    """Rewrite fidelity: under the trivial schedule the outlined functions are bit-identical to the originals."""
    import vectorizers.linear_optimal_transport as lot
    from pynndescent.distances import euclidean
    rs = np.random.RandomState(0)
    a, b = rs.normal(size=(7, 3)), rs.normal(size=(5, 3))
    new = lot.chunked_pairwise_distance
    old = new.__dsim_original__
    oldf = getattr(old, "py_func", old)
    prangeseam.ACTIVE.update(tape=None)
    if not np.array_equal(new(a, b, euclidean), oldf(a, b, euclidean)):
        raise HarnessError("prange outliner changed chunked_pairwise_distance under the trivial schedule")
    u = rs.uniform(0.1, 1, size=(4, 3))
    K = rs.uniform(0.1, 1, size=(4, 5))
    v = rs.uniform(0.1, 1, size=(5, 3))
    y = rs.uniform(0.1, 1, size=(3, 5))
    new2 = lot.right_marginal_error_batch
    old2 = getattr(new2.__dsim_original__, "py_func", new2.__dsim_original__)
    if new2(u, K, v, y) != old2(u, K, v, y):
        raise HarnessError("prange outliner changed right_marginal_error_batch under the trivial schedule")
    vec = rs.normal(size=(5, 2))
    new3 = lot.sinkhorn_transport_images
    old3 = getattr(new3.__dsim_original__, "py_func", new3.__dsim_original__)
    if not np.array_equal(new3(K, u, v, vec), old3(K, u, v, vec)):
        raise HarnessError("prange outliner changed sinkhorn_transport_images under the trivial schedule")


def _amplified_tolerance(case, est, tol):
    """Estimators that divide a projection by sqrt(singular value) (HeuristicLinearAlgebra, ApproximateWasserstein,
    CountFeatureCompression) amplify the last-bit differences that BLAS produces for different batch shapes by
    1/sqrt(s_min); on (nearly) rank-deficient training data that is 1e8.  The tolerance follows the amplification
    (1e-12 relative to the un-divided quantity), so that rounding is never reported as coupling."""
    s = None
    if isinstance(case, A.WassersteinCase) and case.which in ("W-heuristic", "ApproxW"):
        s = np.sqrt(np.abs(np.asarray(getattr(est, "singular_values_", [1.0]), dtype=np.float64)))
    elif isinstance(case, A.CFCCase):
        s = np.abs(np.asarray(getattr(est, "component_scaling_", [1.0]), dtype=np.float64))
    if s is None or s.size == 0:
        return tol
    smin = float(np.min(s))
    if smin <= 0:
        return tol
    return max(tol, 1e-12 / smin)


def _tolerance(case):
    if isinstance(case, A.WassersteinCase) and case.which in ("W-sinkhorn", "Sinkhorn"):
        # the batched Sinkhorn iteration shares one stopping test (aggregate error <= 1e-9) across the rows of a
        # chunk, so a row may get a few more or fewer iterations depending on its companions: differences at the
        # level of the convergence tolerance are inherent to the documented algorithm; anything above is coupling
        return 1e-6
    return max(case.tol, 1e-8) if not case.exact else 0.0


def run(tape, ctx):
    params = getattr(ctx, "cfg", {}).get("params", {})
    fams = [(w, n) for w, n in FAMILIES if not params.get("families") or n in params["families"]]
    fam = A.BY_NAME[tape.weighted("c12.family", fams)]
    case = fam.draw(tape, ctx)
    case.sandbox = None
    case.use_cachedir = False
    tag = case.name
    desc = case.desc
    probes = Probes()
    pstats = {}
    tol = _tolerance(case)
    is_gen = getattr(case, "input_method", None) == "generator"

    est, pobjs = case.new_estimator()
    X, kw = case.build(case.train_ids, for_fit=True)
    kw.update(case.fit_extra(case.train_ids))
    case._n_for_call = len(case.train_ids)
    method = tape.choice("c12.fit_method", list(case.fit_methods))
    try:
        case.call_fit(est, method, X, kw)
    except (StepCapExceeded, HarnessError):
        raise
    except Exception as e:
        probes.hit("fit-raised")
        return {"desc": desc, "probes": probes, "nontrivial": False, "known_outcomes": [f"fit-raised:{type(e).__name__}"]}

    # Known finding (see known_findings.json): under a euclidean cost, a support point so far from every
    # reference vector that exp(-cost) underflows makes the batched Sinkhorn iteration hit its shared non-finite
    # `break` at once, for every item of the chunk.  Such cases get their own signature suffix.
    qual = ""
    if isinstance(case, A.WassersteinCase) and case.which in ("W-sinkhorn", "Sinkhorn") and hasattr(est, "reference_vectors_"):
        try:
            ref = np.asarray(est.reference_vectors_, dtype=np.float64)
            vec = np.asarray(case.vectors, dtype=np.float64)
            if case.metric == "cosine":
                vn = vec / np.linalg.norm(vec, axis=1, keepdims=True)
                rn = ref / np.linalg.norm(ref, axis=1, keepdims=True)
                cost = 1.0 - vn @ rn.T
            else:
                cost = np.sqrt(((vec[:, None, :] - ref[None, :, :]) ** 2).sum(axis=2))
            # (near-)underflow: a support point whose best kernel value exp(-cost) to any reference vector is below
            # 1e-20 (cost > 46): the scaling vectors overflow within a few iterations and the shared break fires
            if np.any(np.max(np.exp(-cost), axis=1) < 1e-20):
                qual = "|sinkhorn-kernel-underflow"
                probes.hit("sinkhorn-kernel-underflow-case")
        except Exception:
            pass
    desc["sinkhorn_kernel_underflow"] = bool(qual)

    tol = _amplified_tolerance(case, est, tol)
    desc["row_tolerance"] = tol

    n = len(case.pool)
    memo = {}          # item -> ("row", row, where) | ("exc", ExcName, where)
    batches = []
    ops = []
    desc["ops"] = ops
    n_ops = tape.between("c12.n_ops", 4, 15)
    nontrivial_calls = 0
    did_big = False
    big_ok = isinstance(case, A.WassersteinCase) and case.which in ("W-exact-spmatrix", "W-exact-lil", "W-exact-generator")

    def do_transform(ids, label):
        Xb, kwb = case.build(ids)
        case._n_for_call = len(ids)
        prangeseam.ACTIVE.update(tape=tape if ctx.interp else None, roots=ctx.trace_roots, stats=pstats)
        try:
            out = case.call_transform(est, Xb, kwb)
            return "ok", out
        except (Violation, StepCapExceeded, HarnessError):
            raise
        except Exception as e:  # an outcome
            return "exc", e
        finally:
            prangeseam.ACTIVE.update(tape=None)

    for opi in range(n_ops):
        kinds = [(5, "subset"), (3, "single"), (2, "all"), (2, "perm"), (2, "dup")]
        if big_ok and not did_big:
            kinds.append((1, "big"))
        if len(batches) >= 2:
            kinds.append((2, "concat"))
        if case.knobs or not ctx.interp:
            kinds.append((3, "knob"))
        k = tape.weighted("c12.op", kinds)
        if k == "knob":
            names = sorted(case.knobs)
            if not ctx.interp:
                names.append("numba_threads")
            name = names[tape.draw("c12.knob_name", len(names))]
            if name == "numba_threads":
                import numba
                v = 1 + tape.draw("c12.numba_threads", numba.config.NUMBA_NUM_THREADS)
                numba.set_num_threads(v)
            else:
                v = tape.choice("c12.knob_value", case.knobs[name])
                setattr(est, name, v)
            ops.append({"op": "set_knob", "name": name, "value": v})
            probes.hit("knob-changed")
            continue
        if k == "big":
            # a batch longer than the fixed inner chunk size (256) of the LOT kernels, built from repeated pool items
            did_big = True
            m = tape.between("c12.bigsize", 257, 300)
            sub = tape.subtape_seed("c12.big_seed")
            import random as _r
            rr = _r.Random(sub)
            ids = [rr.randrange(n) for _ in range(m)]
            probes.hit("big-batch")
        elif k == "single":
            ids = [tape.draw("c12.item", n)]
        elif k == "all":
            ids = list(range(n))
        elif k == "perm":
            ids = tape.shuffle("c12.perm", list(range(n)))
        elif k == "dup":
            m = tape.between("c12.bsize", 1, min(n, 6))
            ids = [tape.draw("c12.item", n) for _ in range(m)]
            j = tape.draw("c12.dup_of", len(ids))
            ids.insert(tape.draw("c12.dup_at", len(ids) + 1), ids[j])
        elif k == "concat":
            a = batches[tape.draw("c12.concat_a", len(batches))]
            b = batches[tape.draw("c12.concat_b", len(batches))]
            ids = (a + b)[:24]
        else:
            m = tape.between("c12.bsize", 2, min(n, 9))
            ids = [tape.draw("c12.item", n) for _ in range(m)]
        batches.append(list(ids))
        st, out = do_transform(ids, k)
        ops.append({"op": f"transform[{k}]", "ids": list(ids), "outcome": st if st == "ok" else type(out).__name__})
        # block/chunk edge probes
        rpb = getattr(case, "rows_per_block", None)
        if rpb and len(ids) % max(1, rpb) == 0:
            probes.hit("batch-multiple-of-block")
        if st == "exc":
            probes.hit("batch-raised")
            ename = type(out).__name__
            # a batch raises iff at least one of its items raises alone
            culprit = None
            for it in dict.fromkeys(ids):
                if it in memo and memo[it][0] == "exc":
                    culprit = it
                    break
            if culprit is None and len(ids) == 1:
                memo[ids[0]] = ("exc", ename, f"op{opi}")
                culprit = ids[0]
            if culprit is None:
                for it in dict.fromkeys(ids):
                    if it in memo:
                        continue
                    s1, o1 = do_transform([it], "probe-single")
                    if s1 == "exc":
                        memo[it] = ("exc", type(o1).__name__, f"op{opi}:single")
                        culprit = it
                        break
                    rows1 = case.rows(o1, 1)
                    if len(rows1) != 1:
                        raise Violation(f"C12|{tag}|row-count", f"transform of 1 item returned {len(rows1)} rows", desc)
                    memo[it] = ("row", rows1[0], f"op{opi}:single")
            if culprit is None:
                raise Violation(f"C12|{tag}|batch-raises-but-each-item-alone-succeeds",
                                f"transform of batch {ids} raised {ename}: {str(out)[:160]} although every one of its items "
                                f"transforms alone", desc)
            continue
        rows = case.rows(out, len(ids))
        if len(rows) != len(ids):
            raise Violation(f"C12|{tag}|row-count",
                            f"transform of a batch of {len(ids)} items returned {len(rows)} rows (ops so far: {[o['op'] for o in ops]})", desc)
        nontrivial_calls += 1
        for pos, (it, row) in enumerate(zip(ids, rows)):
            if it not in memo:
                memo[it] = ("row", row, f"op{opi}[{pos}] of batch {ids}")
                continue
            kind, val, where = memo[it]
            if kind == "exc":
                raise Violation(f"C12|{tag}|item-raises-alone-but-batch-succeeds",
                                f"item {it} raised {val} when transformed at {where}, but got a row inside batch {ids}", desc)
            if not A.row_same(row, val, tol):
                shape_note = ""
                if isinstance(row, tuple) and isinstance(val, tuple) and row[0] != val[0]:
                    shape_note = f" (row width {row[0]} vs {val[0]}: the output width depends on the batch)"
                    raise Violation(f"C12|{tag}|row-width-depends-on-batch",
                                    f"item {it}: width {row[0]} in batch {ids} (position {pos}) but width {val[0]} at {where}", desc)
                raise Violation(f"C12|{tag}|row-depends-on-batch{qual}",
                                f"item {it} at position {pos} of batch {ids} (op {opi}, {k}) differs from its row at {where}{shape_note}: "
                                f"{A.describe_diff(_rv(row), _rv(val))}; knobs so far {[o for o in ops if o['op'] == 'set_knob']}", desc)
            probes.hit("row-compared")

    if pstats.get("interleaved_loops"):
        probes.hit("prange-interleaved", pstats["interleaved_loops"])
    if pstats.get("loops"):
        probes.hit("prange-loops", pstats["loops"])
    sched = {"steps": pstats.get("steps", 0), "switches": pstats.get("switches", 0),
             "preempt_in_task": pstats.get("preempt_in_task", 0), "tasks": pstats.get("workers", 0), "graphs": pstats.get("loops", 0)}
    digests = pstats.get("digests", [])
    import hashlib
    dg = hashlib.sha256(repr(digests).encode()).hexdigest()[:16] if pstats.get("interleaved_loops") else None
    return {"desc": desc, "probes": probes, "sched": sched, "digest": dg,
            "nontrivial": nontrivial_calls >= 2,
            "signature_of_case": (tag, tuple((o["op"], tuple(o.get("ids", ()))) for o in ops), repr(sorted(case.params.items()))) if dg is None else None,
            "outcome_digest": repr([(o["op"], o.get("ids"), o.get("outcome")) for o in ops])}


def _rv(row):
    if isinstance(row, tuple) and len(row) == 3 and isinstance(row[1], list):
        v = np.zeros(row[0])
        v[row[1]] = row[2]
        return v
    return np.asarray(row) if not isinstance(row, (list, tuple)) else row
