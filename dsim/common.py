"""Shared run-time context, violation type and small helpers."""
import hashlib
import json
import os


class Violation(Exception):
    """An oracle failed.  ``sig`` is the stable class signature (what
    known_findings.json matches and what minimisation preserves)."""

    def __init__(self, sig, msg, detail=None):
        super().__init__(f"{sig}: {msg}")
        self.sig = sig
        self.msg = msg
        self.detail = detail or {}


class HarnessError(Exception):
    """Something wrong with the machinery (never reported as a violation)."""


class Ctx:
    """Per-worker-process context."""

    def __init__(self, prop, layer, mode, repo, scratch, hook_limit=None, tier="quick"):
        self.prop = prop
        self.layer = layer
        self.mode = mode            # "interp" | "jit"
        self.repo = repo.rstrip("/")
        self.scratch = scratch
        self.hook_limit = hook_limit
        self.tier = tier
        self.interp = mode == "interp"
        self.trace_roots = (os.path.join(self.repo, "vectorizers") + os.sep,)


def sig_hash(sig):
    return hashlib.sha256(sig.encode()).hexdigest()[:10]


def jdump(obj, path):
    tmp = path + ".tmp"
    with open(tmp, "w") as f:
        json.dump(obj, f, indent=1, sort_keys=True, default=_default)
    os.replace(tmp, path)


def _default(o):
    import numpy as np
    if isinstance(o, np.integer):
        return int(o)
    if isinstance(o, np.floating):
        return float(o)
    if isinstance(o, np.ndarray):
        return o.tolist()
    if isinstance(o, (set, frozenset)):
        return sorted(o, key=repr)
    return repr(o)


class Probes(dict):
    def hit(self, name, n=1):
        self[name] = self.get(name, 0) + n

    def merge(self, other):
        for k, v in other.items():
            self[k] = self.get(k, 0) + v
