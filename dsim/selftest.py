"""Self-tests that gate the checks.

  ./check selftest determinism <prop> [n]   -- same seeds twice, in different worker processes, at a
        different worker count and under another PYTHONHASHSEED; the per-run event-log digests
        (tape, interleaving, outcome) must be identical.
  ./check selftest sensitivity [<prop>]      -- apply each /verif/seeded/*/patch.diff and
        /verif/mutants/*.patch to a scratch copy of the tree and require the quick check to exit 1
        with a replay that reproduces.
"""
import json
import os
import shutil
import subprocess
import sys
import time

from . import runner
from .plans import PLANS


def determinism(prop, n):
    base_seed = int(os.environ.get("VERIF_SEED", "20260927"))
    repo = os.path.realpath(os.environ.get("VERIF_REPO", "/repo"))
    scratch = runner.default_scratch()
    bad = 0
    total = 0
    try:
        jobs = []
        for it in PLANS[prop]["quick"]:
            m = n if it["mode"] == "interp" else max(10, n // 4)
            if it.get("params", {}).get("big"):
                m = 6
            if "ngram" in it["name"]:
                m = 3
            for tag, workers, hs in (("A", 2, "0"), ("B", 3, "12345")):
                item = dict(it, runs=m, workers=workers, per_run=True, hashseed=hs, budget_s=900,
                            name=f"{it['name']}@{tag}")
                jobs.extend(runner.make_range_jobs(item, prop, "quick", base_seed, repo, scratch, f"det{tag}"))
        done = runner.run_jobs(jobs, int(os.environ.get("VERIF_JOBS", "16")))
        per = {}
        for j in done:
            if j.status != "ok":
                print(f"[selftest] worker {j.cfg['plan_name']} {j.status}:\n{j.log_tail()}")
                bad += 1
                continue
            name, tag = j.cfg["plan_name"].split("@")
            for r in j.result["per_run"]:
                per.setdefault((name, r["index"]), {})[tag] = (r["tape"], r["sched"], r["outcome"])
        for (name, idx), d in sorted(per.items()):
            total += 1
            if "A" not in d or "B" not in d:
                print(f"[selftest] {name} index {idx}: missing in one configuration")
                bad += 1
            elif d["A"] != d["B"]:
                print(f"[selftest] {name} index {idx}: DIVERGED  A={d['A']}  B={d['B']}")
                bad += 1
    finally:
        shutil.rmtree(scratch, ignore_errors=True)
    print(f"[selftest] determinism {prop}: {total} runs compared across 2 processes / worker counts / hash seeds, {bad} divergences")
    return 0 if bad == 0 else 2


def _patches(prop=None):
    out = []
    base = os.path.join(runner.VERIF, "seeded")
    if os.path.isdir(base):
        for d in sorted(os.listdir(base)):
            meta = os.path.join(base, d, "meta.json")
            patch = os.path.join(base, d, "patch.diff")
            if os.path.exists(meta) and os.path.exists(patch):
                m = json.load(open(meta))
                if prop is None or m.get("property") == prop:
                    out.append((d, m.get("property"), patch))
    return out


def sensitivity(prop, tier, only=None):
    res = []
    for name, p, patch in _patches(prop):
        if only and not any(o in name for o in only):
            continue
        scratch = os.path.join(os.environ.get("VERIF_SCRATCH", "/dev/shm"), f"verif-mut-{os.getpid()}-{name}")
        shutil.rmtree(scratch, ignore_errors=True)
        os.makedirs(scratch)
        try:
            subprocess.run(["git", "-C", os.environ.get("VERIF_REPO", "/repo"), "archive", "--format=tar", "HEAD", "-o",
                            os.path.join(scratch, "t.tar")], check=True)
            subprocess.run(["tar", "-xf", "t.tar"], cwd=scratch, check=True)
            os.remove(os.path.join(scratch, "t.tar"))
            r = subprocess.run(["git", "apply", "--unsafe-paths", f"--directory={scratch}", patch], cwd="/",
                               capture_output=True, text=True)
            if r.returncode != 0:
                r = subprocess.run(["patch", "-p1", "-i", patch], cwd=scratch, capture_output=True, text=True)
            if r.returncode != 0:
                res.append((name, p, "patch-does-not-apply", r.stderr[-300:]))
                continue
            # evidence of a run against a patched copy must never land in /verif/evidence
            env = dict(os.environ, VERIF_REPO=scratch, VERIF_EVIDENCE_DIR=os.path.join(scratch, "evidence"),
                       VERIF_REPLAY_DIR=os.path.join(runner.VERIF, "out", "replays-sensitivity"))
            t0 = time.time()
            r = subprocess.run([os.path.join(runner.VERIF, "check"), p, "--tier", tier], env=env, capture_output=True, text=True)
            lines = [l for l in r.stdout.splitlines() if l.startswith("VIOLATION")]
            verdict = "caught" if (r.returncode == 1 and lines) else f"MISSED(rc={r.returncode})"
            classes = [l.split("violation class ", 1)[1].split(" (", 1)[0] for l in r.stdout.splitlines() if "violation class" in l]
            res.append((name, p, verdict, f"{time.time() - t0:.0f}s " + "; ".join(l for l in r.stdout.splitlines() if "violation class" in l)[:400]))
            try:
                mp = os.path.join(runner.VERIF, "seeded", name, "meta.json")
                m = json.load(open(mp))
                m["caught_by"] = {"tier": tier, "verdict": verdict, "violation_classes": classes,
                                  "harness_errors": [l for l in r.stdout.splitlines() if "HARNESS-ERROR" in l][:3]}
                json.dump(m, open(mp, "w"), indent=1)
            except Exception:
                pass
        finally:
            shutil.rmtree(scratch, ignore_errors=True)
    for row in res:
        print("[selftest] sensitivity", *row)
    missed = [r for r in res if not r[2].startswith("caught")]
    print(f"[selftest] sensitivity: {len(res) - len(missed)}/{len(res)} seeded changes caught at tier {tier}")
    return 0 if not missed else 1


def main(rest, tier):
    if not rest:
        print(__doc__)
        return 2
    if rest[0] == "determinism":
        prop = rest[1]
        n = int(rest[2]) if len(rest) > 2 else 200
        return determinism(prop, n)
    if rest[0] == "sensitivity":
        prop = rest[1] if len(rest) > 1 and rest[1] != "all" else None
        return sensitivity(prop, tier, only=rest[2:] or None)
    print(__doc__)
    return 2
