"""What each check runs per tier: layers, modes, run counts, worker counts, budgets.

Run counts are fixed (so that the explored seed set is a function of VERIF_SEED
and the tier, not of machine speed); ``budget_s`` is a safety cap after which a
worker truncates its slice (reported in the evidence, never exit 0 after a kill).
"""

PLANS = {
    "C04": {
        "quick": [
            {"name": "L1-interp", "layer": "L1", "mode": "interp", "runs": 16000, "workers": 2, "budget_s": 150},
            {"name": "L1-jit-h4", "layer": "L1", "mode": "jit", "hook_limit": 4, "variant": "h4", "runs": 13000, "workers": 1, "budget_s": 150},
            {"name": "L1-jit-h7", "layer": "L1", "mode": "jit", "hook_limit": 7, "variant": "h7", "runs": 15000, "workers": 1, "budget_s": 150},
            {"name": "L1-jit-h64", "layer": "L1", "mode": "jit", "hook_limit": 64, "variant": "h64", "runs": 7500, "workers": 1, "budget_s": 150},
            {"name": "L1-jit-h257", "layer": "L1", "mode": "jit", "hook_limit": 257, "variant": "h257", "runs": 4000, "workers": 1, "budget_s": 150},
            {"name": "L1-jit-real", "layer": "L1", "mode": "jit", "variant": "real", "runs": 150, "workers": 1, "budget_s": 150},
            {"name": "L2-interp", "layer": "L2", "mode": "interp", "runs": 3600, "workers": 4, "budget_s": 170},
            {"name": "L2-jit-h7-token", "layer": "L2", "mode": "jit", "hook_limit": 7, "variant": "h7tok", "runs": 1500, "workers": 1, "budget_s": 170,
             "params": {"kinds": ["token"], "max_wide": 2, "kernels": ["flat", "geometric"], "masks": ["none", "nullify"]}},
            {"name": "L2-jit-h16-multiset", "layer": "L2", "mode": "jit", "hook_limit": 16, "variant": "h16multi", "runs": 1500, "workers": 1, "budget_s": 170,
             "params": {"kinds": ["multiset"], "max_wide": 2, "kernels": ["flat", "geometric"], "masks": ["none"]}},
            {"name": "L2-jit-h64-timed", "layer": "L2", "mode": "jit", "hook_limit": 64, "variant": "h64timed", "runs": 1500, "workers": 1, "budget_s": 170,
             "params": {"kinds": ["timed"], "max_wide": 2, "kernels": ["flat", "geometric"], "masks": ["none"]}},
            {"name": "L2-jit-h7-ngram", "layer": "L2", "mode": "jit", "hook_limit": 7, "variant": "h7ngram", "runs": 10, "workers": 1, "budget_s": 170,
             "params": {"kinds": ["ngram"], "max_wide": 1, "kernels": ["flat"], "masks": ["none"], "no_em": True}},
            {"name": "L2-jit-real-big", "layer": "L2", "mode": "jit", "variant": "realbig", "runs": 54, "workers": 3, "budget_s": 170,
             "params": {"kinds": ["token", "multiset", "timed"], "max_wide": 2, "kernels": ["flat"], "masks": ["none"], "big": True}},
            {"name": "L2-jit-real-wide-vocab", "layer": "L2", "mode": "jit", "variant": "widevocab", "runs": 6, "workers": 1, "budget_s": 170,
             "no_det_sample": True,
             "params": {"kinds": ["token", "timed"], "max_wide": 2, "kernels": ["flat"], "masks": ["none"], "big": True, "wide_vocab": True,
                        "no_em": True}},
        ],
        "thorough": [
            {"name": "L1-interp", "layer": "L1", "mode": "interp", "runs": 300000, "workers": 2, "budget_s": 2400},
            {"name": "L1-jit-h4", "layer": "L1", "mode": "jit", "hook_limit": 4, "variant": "h4", "runs": 300000, "workers": 1, "budget_s": 2400},
            {"name": "L1-jit-h7", "layer": "L1", "mode": "jit", "hook_limit": 7, "variant": "h7", "runs": 300000, "workers": 1, "budget_s": 2400},
            {"name": "L1-jit-h16", "layer": "L1", "mode": "jit", "hook_limit": 16, "variant": "h16", "runs": 200000, "workers": 1, "budget_s": 2400},
            {"name": "L1-jit-h64", "layer": "L1", "mode": "jit", "hook_limit": 64, "variant": "h64", "runs": 150000, "workers": 1, "budget_s": 2400},
            {"name": "L1-jit-h257", "layer": "L1", "mode": "jit", "hook_limit": 257, "variant": "h257", "runs": 60000, "workers": 1, "budget_s": 2400},
            {"name": "L1-jit-real", "layer": "L1", "mode": "jit", "variant": "real", "runs": 6000, "workers": 2, "budget_s": 2400},
            {"name": "L2-interp", "layer": "L2", "mode": "interp", "runs": 90000, "workers": 5, "budget_s": 2600},
            {"name": "L2-jit-h7-token", "layer": "L2", "mode": "jit", "hook_limit": 7, "variant": "h7tok", "runs": 30000, "workers": 1, "budget_s": 2600,
             "params": {"kinds": ["token"], "max_wide": 3, "kernels": ["flat", "harmonic", "geometric"], "masks": ["none", "mask", "nullify"]}},
            {"name": "L2-jit-h16-multiset", "layer": "L2", "mode": "jit", "hook_limit": 16, "variant": "h16multi", "runs": 30000, "workers": 1, "budget_s": 2600,
             "params": {"kinds": ["multiset"], "max_wide": 3, "kernels": ["flat", "geometric"], "masks": ["none", "nullify"]}},
            {"name": "L2-jit-h64-timed", "layer": "L2", "mode": "jit", "hook_limit": 64, "variant": "h64timed", "runs": 30000, "workers": 1, "budget_s": 2600,
             "params": {"kinds": ["timed"], "max_wide": 3, "kernels": ["flat", "geometric"], "masks": ["none", "nullify"]}},
            {"name": "L2-jit-h4-ngram", "layer": "L2", "mode": "jit", "hook_limit": 4, "variant": "h4ngram", "runs": 200, "workers": 1, "budget_s": 2600,
             "params": {"kinds": ["ngram"], "max_wide": 2, "kernels": ["flat"], "masks": ["none"]}},
            {"name": "L2-jit-real-big", "layer": "L2", "mode": "jit", "variant": "realbig", "runs": 1600, "workers": 3, "budget_s": 2600,
             "params": {"kinds": ["token", "multiset", "timed"], "max_wide": 2, "kernels": ["flat"], "masks": ["none"], "big": True}},
            {"name": "L2-jit-real-wide-vocab", "layer": "L2", "mode": "jit", "variant": "widevocab", "runs": 150, "workers": 1, "budget_s": 2600,
             "no_det_sample": True,
             "params": {"kinds": ["token", "timed"], "max_wide": 2, "kernels": ["flat"], "masks": ["none"], "big": True, "wide_vocab": True,
                        "no_em": True}},
        ],
    },
}

MISC = ["NgramCase", "SkipgramCase", "LZCase", "BPECase", "HistogramCase", "KDECase", "DistributionCase", "InfoWeightCase",
        "RowDenoiseCase", "CFCCase", "SlidingWindowCase", "TreeCase", "EdgeListCase", "CategoricalCase"]

PLANS["C13"] = {
    "quick": [
        {"name": "H-interp-all", "layer": "H", "mode": "interp", "runs": 9000, "workers": 5, "budget_s": 170},
        {"name": "H-interp-hashseed", "layer": "H", "mode": "interp", "variant": "hs", "runs": 1600, "workers": 1, "budget_s": 170,
         "pair_hashseed": "4242", "params": {"no_faults": True}},
        {"name": "H-interp-cancel", "layer": "H", "mode": "interp", "variant": "cancel", "runs": 5000, "workers": 3, "budget_s": 170,
         "params": {"cancel": True}},
        {"name": "H-interp-ot", "layer": "H", "mode": "interp", "variant": "ot", "runs": 4000, "workers": 3, "budget_s": 170,
         "params": {"families": ["WassersteinCase"]}},
        {"name": "H-jit-ot", "layer": "H", "mode": "jit", "variant": "ot", "runs": 3000, "workers": 2, "budget_s": 170,
         "params": {"families": ["WassersteinCase"], "cancel": True}},
        {"name": "H-jit-misc-a", "layer": "H", "mode": "jit", "variant": "misca", "runs": 1500, "workers": 1, "budget_s": 170,
         "params": {"families": MISC[:4]}},
        {"name": "H-jit-misc-b", "layer": "H", "mode": "jit", "variant": "miscb", "runs": 1500, "workers": 1, "budget_s": 170,
         "params": {"families": MISC[4:]}},
        {"name": "H-jit-cooc", "layer": "H", "mode": "jit", "variant": "cooc", "runs": 1500, "workers": 1, "budget_s": 170,
         "params": {"families": ["CoocCase"], "cooc_kinds": ["token", "multiset"]}},
    ],
    "thorough": [
        {"name": "H-interp-all", "layer": "H", "mode": "interp", "runs": 200000, "workers": 5, "budget_s": 2600, "params": {"cancel": True}},
        {"name": "H-interp-nocancel", "layer": "H", "mode": "interp", "variant": "nocancel", "runs": 100000, "workers": 3, "budget_s": 2600,
         "params": {"cancel": False}},
        {"name": "H-interp-hashseed", "layer": "H", "mode": "interp", "variant": "hs", "runs": 30000, "workers": 1, "budget_s": 2600,
         "pair_hashseed": "4242", "params": {"no_faults": True}},
        {"name": "H-interp-ot", "layer": "H", "mode": "interp", "variant": "ot", "runs": 100000, "workers": 3, "budget_s": 2600,
         "params": {"families": ["WassersteinCase"], "cancel": True}},
        {"name": "H-jit-ot", "layer": "H", "mode": "jit", "variant": "ot", "runs": 80000, "workers": 2, "budget_s": 2600,
         "params": {"families": ["WassersteinCase"], "cancel": True}},
        {"name": "H-jit-misc-a", "layer": "H", "mode": "jit", "variant": "misca", "runs": 30000, "workers": 1, "budget_s": 2600,
         "params": {"families": MISC[:4], "cancel": True}},
        {"name": "H-jit-misc-b", "layer": "H", "mode": "jit", "variant": "miscb", "runs": 30000, "workers": 1, "budget_s": 2600,
         "params": {"families": MISC[4:], "cancel": True}},
        {"name": "H-jit-cooc", "layer": "H", "mode": "jit", "variant": "cooc", "runs": 30000, "workers": 2, "budget_s": 2600,
         "params": {"families": ["CoocCase"], "cooc_kinds": ["token", "multiset", "timed"], "cancel": True}},
    ],
}

ROWWISE_MISC = ["NgramCase", "SkipgramCase", "LZCase", "BPECase", "HistogramCase", "KDECase", "DistributionCase",
                "InfoWeightCase", "RowDenoiseCase", "CFCCase", "SlidingWindowCase"]

PLANS["C12"] = {
    "quick": [
        {"name": "H-interp-all", "layer": "H", "mode": "interp", "runs": 10500, "workers": 7, "budget_s": 170},
        {"name": "H-interp-ot", "layer": "H", "mode": "interp", "variant": "ot", "runs": 1000, "workers": 2, "budget_s": 170,
         "params": {"families": ["WassersteinCase"]}},
        {"name": "H-interp-ot-2thr", "layer": "H", "mode": "interp", "variant": "ot2", "runs": 1000, "workers": 2, "budget_s": 170,
         "params": {"families": ["WassersteinCase"]}, "env": {"NUMBA_NUM_THREADS": 2}},
        {"name": "H-jit-ot", "layer": "H", "mode": "jit", "variant": "ot", "runs": 48, "workers": 2, "budget_s": 170,
         "params": {"families": ["WassersteinCase"]}, "env": {"NUMBA_NUM_THREADS": 4}},
        {"name": "H-jit-misc-a", "layer": "H", "mode": "jit", "variant": "misca", "runs": 700, "workers": 1, "budget_s": 170,
         "params": {"families": ROWWISE_MISC[:4]}, "env": {"NUMBA_NUM_THREADS": 4}},
        {"name": "H-jit-misc-b", "layer": "H", "mode": "jit", "variant": "miscb", "runs": 340, "workers": 1, "budget_s": 170,
         "params": {"families": ROWWISE_MISC[4:]}},
    ],
    "thorough": [
        {"name": "H-interp-all", "layer": "H", "mode": "interp", "runs": 400000, "workers": 7, "budget_s": 2600},
        {"name": "H-interp-ot", "layer": "H", "mode": "interp", "variant": "ot", "runs": 100000, "workers": 2, "budget_s": 2600,
         "params": {"families": ["WassersteinCase"]}},
        {"name": "H-interp-ot-2thr", "layer": "H", "mode": "interp", "variant": "ot2", "runs": 100000, "workers": 2, "budget_s": 2600,
         "params": {"families": ["WassersteinCase"]}, "env": {"NUMBA_NUM_THREADS": 2}},
        {"name": "H-jit-ot", "layer": "H", "mode": "jit", "variant": "ot", "runs": 200000, "workers": 2, "budget_s": 2600,
         "params": {"families": ["WassersteinCase"]}, "env": {"NUMBA_NUM_THREADS": 4}},
        {"name": "H-jit-misc-a", "layer": "H", "mode": "jit", "variant": "misca", "runs": 100000, "workers": 1, "budget_s": 2600,
         "params": {"families": ROWWISE_MISC[:4]}, "env": {"NUMBA_NUM_THREADS": 4}},
        {"name": "H-jit-misc-b", "layer": "H", "mode": "jit", "variant": "miscb", "runs": 100000, "workers": 1, "budget_s": 2600,
         "params": {"families": ROWWISE_MISC[4:]}},
    ],
}

RULES = {
    "C04": (
        "Each evaluation is one simulated run decided by one seed (sha256(VERIF_SEED/property/layer/index)). "
        "L1: a generated event stream is appended to a CooArray sized by the estimator's own _set_coo_sizes from drawn knobs "
        "(coo_initial_memory, n_threads, radii, fit size) with a drawn / hook / real sort threshold and compared with a dict model "
        "(after every append in interp mode); non-trivial = the stream reaches the sort threshold or exceeds the capacity "
        "(so at least one sort, merge or growth step ran); distinct = distinct (threshold, capacity, length, #keys, pattern, max merge depth). "
        "L2: a whole fit_transform / fit+transform of a drawn corpus under the simulated dask scheduler with drawn n_threads, "
        "coo_initial_memory, pool size and pre-emption schedule, compared with the reference configuration and (interp) with the "
        "log of events the kernels emitted; non-trivial = at least two tasks were live at once and at least one pre-emption "
        "happened inside a task, or the buffers compacted/grew; distinct = distinct interleaving digests (hash of the total order of "
        "(thread, #line events, line) slices) or, for single-thread runs, distinct knob/corpus signatures."
    ),
}

RULES["C13"] = (
    "Each evaluation is one simulated call history decided by one seed: an estimator family and case (parameters with parameter "
    "objects, item pool) are drawn, then 3-8 operations from {fit, fit_transform, transform(batch), refit}, each primary call preceded "
    "by a fault-free rehearsal on a pristine twin and optionally carrying one fault (io errno at the k-th scratch-file operation, "
    "reader raise/short at item j, invalid item in a later block, cancellation at the n-th traced line). After every call: deep "
    "snapshots of inputs and parameter objects, temp-directory listing, twin memo, same-seed-same-model. Non-trivial = at least one "
    "fault actually fired inside a call (a further kind, task:alloc-failure, makes one chunk task of a multi-threaded co-occurrence call raise MemoryError at its n-th traced line); distinct = distinct (family, sequence of operation kinds with the fault kind that fired in "
    "each, set of fired fault kinds)."
)

RULES["C12"] = (
    "Each evaluation is one simulated history on one fitted estimator decided by one seed: a family and case are drawn, the "
    "estimator is fitted once, then 4-15 operations from {transform(batch) with batch = single / subset / whole pool / permutation / "
    "duplicates / concatenation of earlier batches, set_knob(memory_size | chunk sizes | numba thread count)}; every produced row is "
    "compared with the memo of the same item from any earlier batching (exact for counts and codes, 1e-8 for floats, 1e-6 for the "
    "batched Sinkhorn iteration whose shared stopping test is part of the documented algorithm); in interp mode the prange loops of "
    "the transform path run under simulated workers. Non-trivial = at least two successful transform calls were cross-checked; "
    "distinct = distinct interleaving digests of the simulated parallel loops when at least one loop was interleaved, else distinct "
    "(family, operation list with item ids, parameters)."
)

COMPONENTS = {
    "C04": {
        "real": ["vectorizers.coo_utils (coo_append, coo_sum_duplicates, merge_sum_duplicates, merge_all_sum_duplicates, coo_increase_mem)",
                 "_set_coo_sizes of the estimators", "the four numba_build_*skip_grams kernels and EM iteration kernels (L2)",
                 "chunking (_generate_chunk_boundaries), _build_coo, dask graph construction, reducer sum (L2)"],
        "stub": ["dask's threaded scheduler (ThreadPoolExecutor, queue, order heuristic) -> dsim.daskseam.SimGet + dsim.sched baton scheduler",
                 "L1 only: the kernel loop around coo_append is a driver in /verif that mirrors the calling convention"],
        "modes": "interp = NUMBA_DISABLE_JIT=1 (python semantics, every kernel line is a pre-emption point); jit = compiled kernels, threshold from the guarded hook or the real 65536",
    },
}

COMPONENTS["C13"] = {
    "real": ["every estimator's fit / fit_transform / transform (21 estimator classes, SignatureVectorizer excluded: iisignature is not installed)",
             "preprocessing, block-wise LOT / Sinkhorn fits with their memmap scratch files, generator chunking",
             "co-occurrence builds (their dask graphs run under the simulated scheduler)"],
    "stub": ["the file system under the library's scratch directory: tempfile.mkdtemp / numpy.memmap (create, flush, reopen) / os.remove / "
             "os.rmdir / shutil.rmtree are fault-injecting wrappers (calls from library frames only), tempfile.tempdir is a per-run sandbox",
             "generator inputs are simulated readers", "dask's threaded scheduler -> dsim.daskseam.SimGet",
             "the global numpy RNG is reseeded differently before the two fits that must agree"],
    "modes": "interp = NUMBA_DISABLE_JIT=1; jit = compiled kernels (cancellation can then only land on python-level lines)",
}

COMPONENTS["C12"] = {
    "real": ["fit and transform of the 12 row-wise estimator families (Ngram, Skipgram, LZCompression, BytePairEncoding, Histogram, KDE, "
             "Distribution, Wasserstein x {LOT_exact spmatrix/lil/generator, LOT_sinkhorn, HeuristicLinearAlgebra}, Sinkhorn, "
             "ApproximateWasserstein, InformationWeight, RowDenoising, CountFeatureCompression, SlidingWindow, SequentialDifference)",
             "block / chunk loops of the LOT and Sinkhorn transforms with memory_size and chunk sizes changed between calls"],
    "stub": ["interp mode: numba.prange loops of chunked_pairwise_distance, right_marginal_error_batch, sinkhorn_transport_images and "
             "bpe_encode_all are outlined (AST rewrite in /verif, validated bit-identical under the trivial schedule) and executed by "
             "simulated worker threads under dsim.sched with instruction-level pre-emption (sys.monitoring)",
             "jit mode: real numba threads (thread count is a knob; their interleaving is NOT controlled: evidence for block/chunk/batch "
             "independence only)"],
    "modes": "interp = NUMBA_DISABLE_JIT=1; jit = compiled",
}

ASSUMPTIONS = {
    "C04": [
        "sampled, not exhaustive: a clean batch is evidence, not proof",
        "interp mode assumes compiled code does what the source says; jit mode treats each compiled kernel call as atomic",
        "native races between two nogil kernels truly running at once have no seam and are not explored",
        "event values in L1 are dyadic so float32 sums are exact and the oracle needs no tolerance",
    ],
}

ASSUMPTIONS["C13"] = [
    "sampled, not exhaustive",
    "torn / lost / short writes, bit flips, process crash and allocator failure are not injected: the scratch file has no integrity contract",
    "cancellation is delivered at line granularity, never while an exception is propagating nor inside a finally/except body",
    "after a fit that raised, the estimator's state is unspecified by the property: the history continues with a new fit",
    "a clean-up operation that the simulator itself made fail waives the leftover oracle for exactly that path",
]

ASSUMPTIONS["C12"] = [
    "sampled, not exhaustive",
    "generator input: the adapter declares the stream length (generator_n_distributions) before each call, as the API requires",
    "LZ item pools are biased to strings built from fitted phrases (any unseen phrase makes transform raise consistently per item: a C01 matter)",
    "the compiled prange schedule is not owned by the simulator; schedule exploration proper is the interp-mode simulated loop",
]

# probes that must have fired at least once per tier, otherwise the run is a harness error
REQUIRED_PROBES = {
    "C12": {
        "quick": ["row-compared", "knob-changed", "prange-interleaved", "batch-multiple-of-block", "batch-raised"],
        "thorough": ["row-compared", "knob-changed", "prange-interleaved", "batch-multiple-of-block", "batch-raised"],
    },
    "C13": {
        "quick": ["blockwise-fit", "memo-compared", "same-model-checked", "transform-after-faulted-transform", "cancel@line",
                  "reader:raise", "reader:short", "io:ENOSPC@mkdtemp", "io:ENOSPC@memmap-create", "io:EIO@memmap-flush",
                  "io:EIO@memmap-open", "data:nan", "hashseed-pairs-compared", "task:alloc-failure", "isolated-twin-compared"],
        "thorough": ["blockwise-fit", "memo-compared", "same-model-checked", "transform-after-faulted-transform", "cancel@line",
                     "reader:raise", "reader:short", "io:ENOSPC@mkdtemp", "io:ENOSPC@memmap-create", "io:EIO@memmap-flush",
                     "io:EIO@memmap-open", "data:nan", "io:EACCES@rmtree", "hashseed-pairs-compared", "task:alloc-failure", "isolated-twin-compared"],
    },
    "C04": {
        "quick": ["growth", "depth>=2", "path.merge_all_sum_duplicates", "volume>capacity", "path.coo_increase_mem",
                  "interleaved", "empty-chunk", "transform-larger-than-fit", "est.real-threshold-reached",
                  "est.real-threshold-growth"],
        "thorough": ["growth", "depth>=3", "path.merge_all_sum_duplicates", "volume>capacity", "path.coo_increase_mem",
                     "interleaved", "empty-chunk", "transform-larger-than-fit", "est.real-threshold-reached",
                     "est.real-threshold-growth", "est.8-sort-rounds"],
    },
}
