"""The choice tape: one integer decides everything.

Every decision of a run is a call ``tape.draw(kind, n)`` -> int in [0, n).
In generate mode the answer comes from ``random.Random(seed)`` and is recorded;
in replay mode it comes from a recorded list of integers (0 -- "the simplest
choice" -- when the list is exhausted or the recorded value is out of range).
The minimiser (dsim.shrink) edits the recorded list, never the PRNG.

Logging never draws.  Convention: value 0 is always the simplest alternative
(no fault, no pre-emption, smallest size, first element).
"""
import hashlib
import random


def run_seed(base_seed, prop, layer, index):
    h = hashlib.sha256(f"{base_seed}/{prop}/{layer}/{index}".encode()).digest()
    return int.from_bytes(h[:8], "big")


class Tape:
    __slots__ = ("seed", "_rng", "_replay", "pos", "values", "kinds", "overrun")

    def __init__(self, seed=None, replay=None):
        self.seed = seed
        self._replay = list(replay) if replay is not None else None
        self._rng = random.Random(seed) if replay is None else None
        self.pos = 0
        self.values = []
        self.kinds = []
        self.overrun = 0

    # -- primitive ---------------------------------------------------------
    def draw(self, kind, n):
        if n <= 1:
            return 0
        if self._replay is None:
            v = self._rng.randrange(n)
        else:
            if self.pos < len(self._replay):
                v = self._replay[self.pos]
                if not (0 <= v < n):
                    v = 0
            else:
                v = 0
                self.overrun += 1
        self.pos += 1
        self.values.append(v)
        self.kinds.append(kind)
        return v

    # -- conveniences (all defined through draw) ---------------------------
    def between(self, kind, lo, hi):
        """integer in [lo, hi]; lo is the simple end."""
        return lo + self.draw(kind, hi - lo + 1)

    def choice(self, kind, seq):
        return seq[self.draw(kind, len(seq))]

    def chance(self, kind, num, den):
        """True with probability num/den; False is the simple answer."""
        return self.draw(kind, den) >= den - num

    def weighted(self, kind, pairs):
        """pairs = [(weight, item), ...]; the first item is the simple one."""
        tot = sum(w for w, _ in pairs)
        v = self.draw(kind, tot)
        for w, item in pairs:
            if v < w:
                return item
            v -= w
        return pairs[-1][1]

    def shuffle(self, kind, seq):
        """Fisher-Yates driven by the tape (identity when all draws are 0)."""
        seq = list(seq)
        for i in range(len(seq) - 1):
            j = i + self.draw(kind, len(seq) - i)
            seq[i], seq[j] = seq[j], seq[i]
        return seq

    def subtape_seed(self, kind):
        """A 32-bit number for seeding bulk data generation (numpy RandomState).
        Used where a corpus of 10^5 tokens would otherwise be 10^5 tape entries."""
        return self.draw(kind, 1 << 32)

    def digest(self):
        h = hashlib.sha256()
        h.update(repr(self.values).encode())
        return h.hexdigest()[:16]
