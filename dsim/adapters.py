"""Estimator adapters shared by the C12 and C13 workloads.

An adapter draws a Case from the tape: constructor parameters (with *parameter objects*
on purpose: user dictionaries, reference arrays, kernel-arg dicts), an item pool, a
training subset, and knows how to build a fresh estimator, how to build the input for a
batch of pool items, how to cut an output into rows and how to compare them.
Everything built for a call is a fresh object (so that snapshots belong to one call).
"""
import copy
import os

import numpy as np
import scipy.sparse

from .fsseam import reader


# ----------------------------------------------------------------------------- comparison
def same(a, b, tol):
    """Structural equality of two outputs / rows; floats to ``tol`` (absolute-or-relative)."""
    if a is None or b is None:
        return a is None and b is None
    if scipy.sparse.issparse(a) or scipy.sparse.issparse(b):
        if not (scipy.sparse.issparse(a) and scipy.sparse.issparse(b)):
            return False
        if a.shape != b.shape:
            return False
        with np.errstate(invalid="ignore"):
            d = (a.tocsr().astype(np.float64) - b.tocsr().astype(np.float64)).tocoo()
        if d.nnz == 0:
            return True
        av = np.asarray(a.tocsr()[d.row, d.col]).ravel().astype(np.float64)
        bv = np.asarray(b.tocsr()[d.row, d.col]).ravel().astype(np.float64)
        both_nan = np.isnan(av) & np.isnan(bv)
        with np.errstate(invalid="ignore"):
            ok = (np.abs(av - bv) <= tol * np.maximum(1.0, np.maximum(np.abs(av), np.abs(bv)))) | both_nan | (av == bv)
        return bool(np.all(ok))
    if isinstance(a, np.ndarray) or isinstance(b, np.ndarray):
        a = np.asarray(a)
        b = np.asarray(b)
        if a.shape != b.shape:
            return False
        if a.dtype.kind in "OUS" or b.dtype.kind in "OUS":
            return a.tolist() == b.tolist()
        a = a.astype(np.float64)
        b = b.astype(np.float64)
        both_nan = np.isnan(a) & np.isnan(b)
        with np.errstate(invalid="ignore"):
            ok = (np.abs(a - b) <= tol * np.maximum(1.0, np.maximum(np.abs(a), np.abs(b)))) | both_nan | (a == b)
        return bool(np.all(ok))
    if isinstance(a, (list, tuple)) or hasattr(a, "_numba_type_"):
        if not (isinstance(b, (list, tuple)) or hasattr(b, "_numba_type_")):
            return False
        if len(a) != len(b):
            return False
        return all(same(x, y, tol) for x, y in zip(a, b))
    if isinstance(a, float) or isinstance(b, float) or isinstance(a, np.floating) or isinstance(b, np.floating):
        a = float(a)
        b = float(b)
        return a == b or (a != a and b != b) or abs(a - b) <= tol * max(1.0, abs(a), abs(b))
    try:
        import pandas as pd
        if isinstance(a, (pd.Series, pd.DataFrame)):
            return type(a) is type(b) and a.index.tolist() == b.index.tolist() and same(a.values.tolist(), b.values.tolist(), tol)
    except ImportError:
        pass
    return a == b


def describe_diff(a, b):
    try:
        if scipy.sparse.issparse(a) and scipy.sparse.issparse(b):
            if a.shape != b.shape:
                return f"shape {a.shape} vs {b.shape}"
            d = (a.tocsr().astype(np.float64) - b.tocsr().astype(np.float64)).tocoo()
            i = int(np.argmax(np.abs(d.data)))
            return f"{d.nnz} cells differ, largest at [{d.row[i]},{d.col[i]}]: {a[d.row[i], d.col[i]]} vs {b[d.row[i], d.col[i]]}"
        if isinstance(a, np.ndarray) and isinstance(b, np.ndarray):
            if a.shape != b.shape:
                return f"shape {a.shape} vs {b.shape}"
            if a.dtype.kind in "fiu" and b.dtype.kind in "fiu":
                d = np.abs(a.astype(np.float64) - b.astype(np.float64))
                d = np.where(np.isnan(d), np.inf, d)
                i = np.unravel_index(int(np.argmax(d)), d.shape)
                return f"max abs difference {d[i]} at {tuple(int(x) for x in i)}: {a[i]} vs {b[i]}"
        if isinstance(a, (list, tuple)) and isinstance(b, (list, tuple)):
            if len(a) != len(b):
                return f"length {len(a)} vs {len(b)}"
            for i, (x, y) in enumerate(zip(a, b)):
                if not same(x, y, 1e-9):
                    return f"element {i}: " + describe_diff(x, y)
    except Exception as e:  # pragma: no cover - best effort text only
        return f"(no detail: {e!r})"
    ra, rb = repr(a), repr(b)
    return f"{ra[:120]} vs {rb[:120]}"


def csr_rows(m):
    m = m.tocsr().astype(np.float64)
    m.sum_duplicates()
    m.sort_indices()
    out = []
    for i in range(m.shape[0]):
        s, e = m.indptr[i], m.indptr[i + 1]
        nz = m.data[s:e] != 0
        out.append((m.shape[1], m.indices[s:e][nz].tolist(), m.data[s:e][nz].tolist()))
    return out


def row_same(a, b, tol):
    """rows as produced by Case.rows()"""
    if isinstance(a, tuple) and len(a) == 3 and isinstance(a[1], list):
        if a[0] != b[0] or a[1] != b[1]:
            return False
        return same(np.asarray(a[2]), np.asarray(b[2]), tol)
    return same(a, b, tol)


# ----------------------------------------------------------------------------- data helpers
def draw_docs(tape, n, vocab, maxlen, kind="p.doc", allow_empty=True, prefix="w"):
    docs = []
    for _ in range(n):
        lk = tape.weighted(kind + ".lenkind", [(6, "short"), (3, "long"), (1, "one"), (1 if allow_empty else 0, "empty")] if allow_empty
                           else [(6, "short"), (3, "long"), (1, "one")])
        if lk == "empty":
            ln = 0
        elif lk == "one":
            ln = 1
        elif lk == "short":
            ln = tape.between(kind + ".len", 2, 8)
        else:
            ln = tape.between(kind + ".len", 9, maxlen)
        docs.append([f"{prefix}{tape.draw(kind + '.tok', vocab)}" for _ in range(ln)])
    return docs


def draw_numseq(tape, kind, minlen, maxlen, lo=0, hi=40):
    n = tape.between(kind + ".len", minlen, maxlen)
    return np.asarray([(lo + tape.draw(kind + ".val", (hi - lo) * 4 + 1)) / 4.0 for _ in range(n)], dtype=np.float64)


def draw_string(tape, kind, alphabet, minlen, maxlen):
    n = tape.between(kind + ".len", minlen, maxlen)
    return "".join(alphabet[tape.draw(kind + ".ch", len(alphabet))] for _ in range(n))


def draw_counts(tape, kind, n_rows, n_cols, max_nnz_row, explicit_zero=False, allow_empty_row=True):
    rows, cols, vals = [], [], []
    for i in range(n_rows):
        k = tape.between(kind + ".nnz", 0 if allow_empty_row else 1, max_nnz_row)
        chosen = sorted(set(tape.draw(kind + ".col", n_cols) for _ in range(k)))
        if not chosen and not allow_empty_row:
            chosen = [tape.draw(kind + ".col", n_cols)]
        for c in chosen:
            rows.append(i)
            cols.append(c)
            vals.append(float(1 + tape.draw(kind + ".cnt", 6)))
    m = scipy.sparse.csr_matrix((vals, (rows, cols)), shape=(n_rows, n_cols), dtype=np.float64)
    return m


def degenerate_spectrum(m, k, rel=1e-7):
    """True if the top-k singular subspace / vectors of m are not unique: rank < k, or two equal singular values
    among s[0..k] (including the pair at the cut)."""
    sv = np.linalg.svd(np.asarray(m, dtype=np.float64), compute_uv=False)
    if sv.size == 0 or sv[0] == 0:
        return True
    if sv.size < k or sv[k - 1] <= rel * sv[0]:
        return True
    top = sv[: min(sv.size, k + 1)]
    return bool(np.any(np.abs(np.diff(top)) <= rel * sv[0]))


# ----------------------------------------------------------------------------- base case
class Case:
    arpack_degenerate = False

    def is_arpack_degenerate(self, ids):
        return False

    rowwise = True
    tol = 1e-8
    exact = False
    supports_single = True
    has_transform = True
    fit_methods = ("fit", "fit_transform")
    uses_dask = False

    def __init__(self, name):
        self.name = name
        self.desc = {"family": name}
        self.params = {}
        self.pool = []
        self.train_ids = []
        self.knobs = {}

    # parameter objects: fresh (deep-copied) per estimator
    def param_objects(self):
        return {}

    def ctor_kwargs(self, pobjs):
        kw = dict(self.params)
        kw.update(pobjs)
        return kw

    def new_estimator(self):
        pobjs = self.param_objects()
        est = self.cls(**self.ctor_kwargs(pobjs))
        return est, pobjs

    supports_invalid_doc = False

    # input building: returns (X, kwargs) -- fresh objects
    def build(self, ids, for_fit=False, invalid_at=None, invalid_kind=None):
        X = [copy.deepcopy(self.pool[i]) for i in ids]
        if invalid_at is not None and X:
            _spoil_doc(X, min(invalid_at, len(X) - 1), invalid_kind)
        return X, {}

    def fit_extra(self, ids):
        return {}

    def call_fit(self, est, method, X, kw):
        return getattr(est, method)(X, **kw)

    def call_transform(self, est, X, kw):
        return est.transform(X, **kw)

    def rows(self, out, n):
        if scipy.sparse.issparse(out):
            r = csr_rows(out)
        elif isinstance(out, np.ndarray):
            r = [out[i] for i in range(out.shape[0])]
        else:
            r = list(out)
        return r

    def n_rows(self, out):
        if scipy.sparse.issparse(out) or isinstance(out, np.ndarray):
            return out.shape[0]
        return len(out)

    def fitted_state(self, est):
        """Public fitted attributes compared by the same-seed-same-model oracle."""
        out = {}
        for k, v in vars(est).items():
            if k.endswith("_") and not k.startswith("_"):
                out[k] = v
        return out


def _spoil_doc(docs, j, kind):
    """Put an invalid token into document j (a later document of the call): another token type, or an unhashable one."""
    d = docs[j]
    bad = 3.5 if kind != "unhashable" else ["x"]
    if isinstance(d, list):
        if d and isinstance(d[0], list) and len(d[0]) == 2 and not isinstance(d[0][0], list) and isinstance(d[0][1], float):
            d.insert(len(d) // 2, [bad, d[-1][1] + 1.0] if kind != "unhashable" else [["x"], d[-1][1] + 1.0])   # timed pair
        elif d and isinstance(d[0], list):
            d[len(d) // 2].append(bad)          # multiset
        else:
            d.insert(len(d) // 2, bad)


def _mask_params(tape, kind):
    mk = tape.weighted(kind + ".mask", [(3, "none"), (2, "mask"), (1, "nullify")])
    if mk == "none":
        return {}
    return {"mask_string": "[M]", "min_occurrences": 2, "nullify_mask": mk == "nullify"}


# ----------------------------------------------------------------------------- families
class NgramCase(Case):
    exact = True
    tol = 0
    supports_invalid_doc = True

    @classmethod
    def draw(cls, tape, ctx):
        from vectorizers import NgramVectorizer
        c = cls("NgramVectorizer")
        c.cls = NgramVectorizer
        vocab = tape.choice("ng.vocab", [3, 5, 9])
        c.pool = draw_docs(tape, tape.between("ng.pool", 6, 14), vocab + 2, 14, "ng.doc")
        ntrain = tape.between("ng.ntrain", 2, max(2, len(c.pool) - 2))
        c.train_ids = list(range(ntrain))
        c.params = {"ngram_size": tape.choice("ng.size", [1, 2, 3]),
                    "ngram_behaviour": tape.choice("ng.beh", ["exact", "subgrams"])}
        mp = _mask_params(tape, "ng")
        c.params.update({k: v for k, v in mp.items()})
        c.user_dict = None
        if tape.chance("ng.userdict", 1, 3):
            c.user_dict = {f"w{i}": i for i in range(vocab)}
        c.user_ngrams = None
        if tape.chance("ng.userngrams", 1, 5):
            k = c.params["ngram_size"]
            if k == 1:
                c.user_ngrams = {f"w{i}": i for i in range(vocab)}
            else:
                c.user_ngrams = {tuple(f"w{(i + j) % vocab}" for j in range(k)): i for i in range(vocab)}
        c.desc.update(params=dict(c.params), user_token_dictionary=c.user_dict is not None,
                      user_ngram_dictionary=c.user_ngrams is not None, pool=len(c.pool), ntrain=ntrain)
        return c

    def param_objects(self):
        d = {}
        if self.user_dict is not None:
            d["token_dictionary"] = dict(self.user_dict)
        if self.user_ngrams is not None:
            d["ngram_dictionary"] = dict(self.user_ngrams)
        return d


class SkipgramCase(Case):
    tol = 1e-9
    supports_invalid_doc = True

    @classmethod
    def draw(cls, tape, ctx):
        from vectorizers import SkipgramVectorizer
        c = cls("SkipgramVectorizer")
        c.cls = SkipgramVectorizer
        vocab = tape.choice("sg.vocab", [3, 5, 8])
        c.pool = draw_docs(tape, tape.between("sg.pool", 6, 12), vocab + 1, 12, "sg.doc")
        ntrain = tape.between("sg.ntrain", 2, max(2, len(c.pool) - 2))
        c.train_ids = list(range(ntrain))
        c.params = {"window_radius": tape.choice("sg.radius", [1, 2, 4]),
                    "kernel_function": tape.choice("sg.kernel", ["flat", "harmonic"]),
                    "window_function": tape.weighted("sg.winfn", [(3, "fixed"), (1, "variable")])}
        c.user_dict = {f"w{i}": i for i in range(vocab)} if tape.chance("sg.userdict", 1, 3) else None
        c.ignored = {"w0"} if (c.user_dict is None and tape.chance("sg.ignored", 1, 4)) else None
        c.desc.update(params=dict(c.params), user_token_dictionary=c.user_dict is not None, pool=len(c.pool), ntrain=ntrain,
                      ignored_tokens=sorted(c.ignored) if c.ignored else None)
        return c

    def param_objects(self):
        d = {"window_args": {}, "kernel_args": {}}
        if self.user_dict is not None:
            d["token_dictionary"] = dict(self.user_dict)
        if self.ignored is not None:
            d["ignored_tokens"] = set(self.ignored)
        return d


class LZCase(Case):
    exact = True
    tol = 0

    @classmethod
    def draw(cls, tape, ctx):
        from vectorizers.mixed_gram_vectorizer import LZCompressionVectorizer
        c = cls("LZCompressionVectorizer")
        c.cls = LZCompressionVectorizer
        alpha = "ab" if tape.chance("lz.alpha", 1, 2) else "abc"
        train = [draw_string(tape, "lz.str", alpha, 4, 24) for _ in range(tape.between("lz.ntrain", 3, 7))]
        # pool biased to strings built from fitted material so that histories progress
        extra = []
        for _ in range(tape.between("lz.nextra", 3, 8)):
            k = tape.weighted("lz.extra_kind", [(4, "sub"), (2, "concat"), (1, "new"), (1, "empty")])
            if k == "sub":
                s = train[tape.draw("lz.pick", len(train))]
                a = tape.draw("lz.a", max(1, len(s)))
                extra.append(s[: a + 1])
            elif k == "concat":
                extra.append(train[tape.draw("lz.pick", len(train))][:6] + train[tape.draw("lz.pick", len(train))][:5])
            elif k == "new":
                extra.append(draw_string(tape, "lz.str", alpha + "z", 2, 10))
            else:
                extra.append("")
        c.pool = train + extra
        c.train_ids = list(range(len(train)))
        hashed = (not ctx.interp) and tape.chance("lz.hashed", 1, 2)
        c.params = {"max_dict_size": tape.choice("lz.dict", [1 << 16, 8, 3]),
                    "max_columns": (tape.choice("lz.cols", [1 << 16, 64]) if hashed else None),
                    "random_state": 7}
        c.base = {"a": 1} if (not hashed and tape.chance("lz.base", 1, 4)) else None
        c.desc.update(params=dict(c.params), base_dictionary=c.base, pool=len(c.pool), ntrain=len(train))
        return c

    def param_objects(self):
        if self.base is not None:
            import numba
            d = numba.typed.Dict.empty(numba.types.unicode_type, numba.types.int64)
            for k, v in self.base.items():
                d[k] = v
            return {"base_dictionary": d}
        return {}


class BPECase(Case):
    exact = True
    tol = 0

    @classmethod
    def draw(cls, tape, ctx):
        from vectorizers.mixed_gram_vectorizer import BytePairEncodingVectorizer
        c = cls("BytePairEncodingVectorizer")
        c.cls = BytePairEncodingVectorizer
        alpha = tape.choice("bpe.alpha", ["ab", "abc", "abcd"])
        train = [draw_string(tape, "bpe.str", alpha, 3, 20) for _ in range(tape.between("bpe.ntrain", 3, 7))]
        extra = []
        for _ in range(tape.between("bpe.nextra", 3, 8)):
            k = tape.weighted("bpe.extra_kind", [(4, "sub"), (3, "new"), (1, "short"), (3, "oov")])
            if k == "sub":
                s = train[tape.draw("bpe.pick", len(train))]
                extra.append(s[tape.draw("bpe.a", max(1, len(s) - 2)):] or s)
            elif k == "new":
                extra.append(draw_string(tape, "bpe.str", alpha, 3, 16))
            elif k == "oov":
                # characters above every code seen at fit (max_char_code_) at drawn positions
                base = list(draw_string(tape, "bpe.str", alpha, 3, 14))
                for _ in range(tape.between("bpe.noov", 1, 3)):
                    base[tape.draw("bpe.oovpos", len(base))] = tape.choice("bpe.oovch", ["z", "\u00e9", "\u4e2d"])
                extra.append("".join(base))
            else:
                extra.append(draw_string(tape, "bpe.str", alpha, 2, 3))
        c.pool = train + extra
        c.train_ids = list(range(len(train)))
        c.params = {"max_vocab_size": tape.choice("bpe.vocab", [5, 12, 100]),
                    "min_token_occurrence": tape.choice("bpe.minocc", [1, 2]),
                    "return_type": tape.choice("bpe.rt", ["matrix", "sequences", "tokens"])}
        c.desc.update(params=dict(c.params), pool=len(c.pool), ntrain=len(train))
        return c

    def rows(self, out, n):
        if scipy.sparse.issparse(out):
            return csr_rows(out)
        return [np.asarray(r).tolist() for r in out]


class HistogramCase(Case):
    exact = True
    tol = 0

    @classmethod
    def draw(cls, tape, ctx):
        from vectorizers import HistogramVectorizer
        c = cls("HistogramVectorizer")
        c.cls = HistogramVectorizer
        # sometimes all sequences have one length and the caller passes a 2-D ndarray instead of a list of arrays
        c.as_ndarray = tape.chance("hi.ndarray", 1, 3)
        if c.as_ndarray:
            ln = tape.between("hi.eqlen", 2, 8)
            c.pool = [draw_numseq(tape, "hi.seq", ln, ln) for _ in range(tape.between("hi.pool", 5, 12))]
        else:
            c.pool = [draw_numseq(tape, "hi.seq", 1, 12) for _ in range(tape.between("hi.pool", 5, 12))]
        ntrain = tape.between("hi.ntrain", 2, len(c.pool) - 1)
        c.train_ids = list(range(ntrain))
        c.params = {"n_components": tape.choice("hi.bins", [2, 5, 20]),
                    "strategy": tape.choice("hi.strategy", ["uniform", "quantile"]),
                    "append_outlier_bins": tape.chance("hi.outlier", 1, 2)}
        # a finite absolute_range leaves some values without a bin (bins are left-open: 0 is outside (0, inf))
        c.abs_range = tape.weighted("hi.range", [(3, None), (2, (0, float("inf"))), (1, (1.0, 8.0))])
        c.desc.update(params=dict(c.params), absolute_range=repr(c.abs_range), pool=len(c.pool), ntrain=ntrain,
                      input_is_2d_ndarray=c.as_ndarray)
        return c

    def param_objects(self):
        if self.abs_range is not None:
            return {"absolute_range": tuple(self.abs_range)}
        return {}

    def build(self, ids, for_fit=False):
        seqs = [self.pool[i].copy() for i in ids]
        if self.as_ndarray and seqs:
            return np.vstack(seqs), {}
        return seqs, {}


class KDECase(Case):
    tol = 1e-9

    @classmethod
    def draw(cls, tape, ctx):
        from vectorizers import KDEVectorizer
        c = cls("KDEVectorizer")
        c.cls = KDEVectorizer
        c.pool = [draw_numseq(tape, "kde.seq", 2, 10) for _ in range(tape.between("kde.pool", 5, 10))]
        ntrain = tape.between("kde.ntrain", 2, len(c.pool) - 1)
        c.train_ids = list(range(ntrain))
        c.params = {"bandwidth": tape.choice("kde.bw", [0.5, 2.0]), "n_components": tape.choice("kde.n", [5, 16]),
                    "evaluation_grid_strategy": tape.choice("kde.grid", ["uniform", "density"])}
        # how the caller holds the samples: a list of arrays | one 2-D array, a sample per row (the rows an iteration
        # hands out are temporaries) | a tuple of arrays
        c.container = tape.draw("kde.container", 3)
        if c.container == 1:
            n = min(len(x) for x in c.pool)
            c.pool = [x[:n] for x in c.pool]
        c.desc.update(params=dict(c.params), pool=len(c.pool), ntrain=ntrain, container=c.container)
        return c

    def build(self, ids, for_fit=False, invalid_at=None, invalid_kind=None):
        X, kw = super().build(ids, for_fit=for_fit, invalid_at=invalid_at, invalid_kind=invalid_kind)
        if invalid_at is None and X:
            if self.container == 1:
                X = np.asarray(X, dtype=np.float64)
            elif self.container == 2:
                X = tuple(X)
        return X, kw


class DistributionCase(Case):
    tol = 1e-9
    fit_methods = ("fit", "fit_transform")

    @classmethod
    def draw(cls, tape, ctx):
        from vectorizers import DistributionVectorizer
        c = cls("DistributionVectorizer")
        c.cls = DistributionVectorizer
        dim = 2   # pairwise_gaussian_ground_distance is written for 2-D Gaussians (1-D input reads out of bounds: a C10 matter)
        pool = []
        for _ in range(tape.between("dv.pool", 5, 9)):
            n = tape.between("dv.npts", 3, 8)
            pool.append(np.asarray([[tape.draw("dv.coord", 33) / 4.0 for _ in range(dim)] for _ in range(n)], dtype=np.float64))
        # sometimes one very large point cloud (so that a batch holding it twice exceeds any internal block of ~16k points)
        if tape.chance("dv.huge", 1, 3):
            import random as _r
            rr = _r.Random(tape.subtape_seed("dv.huge_seed"))
            npts = tape.between("dv.huge_n", 9000, 11000)
            pool.append(np.asarray([[rr.randrange(33) / 4.0 for _ in range(dim)] for _ in range(npts)], dtype=np.float64))
        c.pool = pool
        c.train_ids = list(range(tape.between("dv.ntrain", 3, min(len(pool) - 1, 8))))
        c.params = {"n_components": tape.choice("dv.comp", [2, 3]), "random_state": tape.choice("dv.rs", [0, 42])}
        c.desc.update(params=dict(c.params), pool=len(pool), ntrain=len(c.train_ids), dim=dim)
        return c


class _MatrixCase(Case):
    """Estimators whose input is a (sparse) matrix: items are rows of a base matrix."""

    def build(self, ids, for_fit=False):
        """Rows are assembled item by item, so that an item's stored entries (explicit zeros, entry order)
        do not depend on its position in the batch."""
        indptr, indices, data = [0], [], []
        for i in ids:
            cols, vals = self.item_rows[i]
            indices.extend(cols)
            data.extend(vals)
            indptr.append(len(indices))
        m = scipy.sparse.csr_matrix((np.asarray(data, dtype=np.float64), np.asarray(indices, dtype=np.int32),
                                     np.asarray(indptr, dtype=np.int32)), shape=(len(ids), self.base.shape[1]))
        if not self.unsorted:
            m.has_sorted_indices = True
        if self.in_format == "csc":
            m = m.tocsc()
            if self.unsorted and m.nnz > 1:
                # reverse the entries inside each column: a valid CSC matrix with unsorted indices
                for j in range(m.shape[1]):
                    s, e = m.indptr[j], m.indptr[j + 1]
                    m.indices[s:e] = m.indices[s:e][::-1].copy()
                    m.data[s:e] = m.data[s:e][::-1].copy()
                m.has_sorted_indices = False
        elif self.in_format == "dense":
            m = m.toarray()
        return m, {}

    def _finish_items(self, tape, kind):
        """Per-item stored entries: optional explicit zero, optional descending column order."""
        self.item_rows = []
        n_cols = self.base.shape[1]
        for i in range(self.base.shape[0]):
            row = self.base[i]
            cols = row.indices.tolist()
            vals = row.data.tolist()
            if self.explicit_zero and i % 3 == 0:
                free = [c for c in range(n_cols) if c not in cols]
                if free:
                    cols.append(free[0])
                    vals.append(0.0)
            order = sorted(range(len(cols)), key=lambda k: cols[k], reverse=(self.unsorted and self.in_format == "csr"))
            self.item_rows.append(([cols[k] for k in order], [vals[k] for k in order]))

    def _draw_matrix(self, tape, kind, allow_empty_row=False):
        n_cols = tape.choice(kind + ".ncols", [4, 7, 12])
        n_rows = tape.between(kind + ".nrows", 6, 14)
        # all-zero rows are legal input for the three matrix transformers (the repository's own tests use them)
        self.base = draw_counts(tape, kind, n_rows, n_cols, min(5, n_cols), allow_empty_row=True)
        self.pool = list(range(n_rows))
        self.in_format = tape.weighted(kind + ".fmt", [(3, "csr"), (2, "csc"), (1, "dense")])
        self.explicit_zero = tape.chance(kind + ".expzero", 1, 3)
        self.unsorted = tape.chance(kind + ".unsorted", 1, 3)
        ntrain = tape.between(kind + ".ntrain", 4, n_rows - 1)
        self.train_ids = list(range(ntrain))
        self.desc.update(shape=[n_rows, n_cols], in_format=self.in_format, explicit_zero=self.explicit_zero,
                         unsorted_indices=self.unsorted, ntrain=ntrain)
        self._finish_items(tape, kind)


class InfoWeightCase(_MatrixCase):
    tol = 1e-9

    @classmethod
    def draw(cls, tape, ctx):
        from vectorizers.transformers import InformationWeightTransformer
        c = cls("InformationWeightTransformer")
        c.cls = InformationWeightTransformer
        c._draw_matrix(tape, "iw")
        c.params = {"prior_strength": tape.choice("iw.prior", [1e-4, 0.1]), "approx_prior": tape.chance("iw.approx", 1, 2),
                    "weight_power": tape.choice("iw.power", [2.0, 1.0])}
        c.supervised = tape.chance("iw.supervised", 1, 4)
        c.desc.update(params=dict(c.params), supervised=c.supervised)
        return c

    def fit_extra(self, ids):
        if self.supervised:
            return {"y": np.asarray([i % 2 for i in ids])}
        return {}

    def rows(self, out, n):
        if scipy.sparse.issparse(out):
            return csr_rows(out)
        return [np.asarray(out)[i] for i in range(np.asarray(out).shape[0])]


class RowDenoiseCase(_MatrixCase):
    tol = 1e-8

    @classmethod
    def draw(cls, tape, ctx):
        from vectorizers.transformers import RowDenoisingTransformer
        c = cls("RowDenoisingTransformer")
        c.cls = RowDenoisingTransformer
        c._draw_matrix(tape, "rd")
        if c.in_format == "dense":
            c.in_format = "csr"
            c.desc["in_format"] = "csr"
            c._finish_items(tape, "rd")
        c.params = {"normalize": tape.chance("rd.normalize", 1, 2), "em_prior_strength": tape.choice("rd.ps", [0.5, 0.1]),
                    "em_background_prior": tape.choice("rd.bg", [1.0, 5.0])}
        c.desc.update(params=dict(c.params))
        return c


class CFCCase(_MatrixCase):
    tol = 1e-8

    @classmethod
    def draw(cls, tape, ctx):
        from vectorizers.transformers import CountFeatureCompressionTransformer
        c = cls("CountFeatureCompressionTransformer")
        c.cls = CountFeatureCompressionTransformer
        c._draw_matrix(tape, "cfc")
        c.unsorted = False
        c._finish_items(tape, "cfc")
        c.params = {"n_components": tape.choice("cfc.n", [2, 3]), "algorithm": tape.choice("cfc.alg", ["randomized", "arpack"]),
                    "random_state": tape.choice("cfc.rs", [0, 11]), "n_iter": 4}
        c.desc.update(params=dict(c.params))
        # ARPACK (scipy svds) is not reproducible on a degenerate spectrum -- rank below k, or equal singular values
        # at / above the cut: it restarts from its own internal random vector, whatever random_state is given
        # (see known_findings.json).  The adapter computes the spectrum of the training matrix actually used.
        c.arpack_degenerate = c.is_arpack_degenerate(c.train_ids)
        c.desc["arpack_degenerate_spectrum"] = c.arpack_degenerate
        return c

    def is_arpack_degenerate(self, ids):
        if self.params["algorithm"] != "arpack":
            return False
        tr = self.base[list(ids)].toarray()
        nrm = np.sqrt((tr ** 2).sum(axis=1, keepdims=True))
        nrm[nrm == 0] = 1.0
        return degenerate_spectrum(np.sqrt(tr / nrm), self.params["n_components"])


class SlidingWindowCase(Case):
    exact = True
    tol = 0

    @classmethod
    def draw(cls, tape, ctx):
        from vectorizers.transformers import SlidingWindowTransformer, SequentialDifferenceTransformer
        which = tape.weighted("sw.which", [(3, "window"), (1, "diff")])
        if which == "diff":
            c = cls("SequentialDifferenceTransformer")
            c.cls = SequentialDifferenceTransformer
            c.params = {"stride": tape.choice("sw.stride", [1, 2])}
            minlen = 4
        else:
            c = cls("SlidingWindowTransformer")
            c.cls = SlidingWindowTransformer
            width = tape.choice("sw.width", [2, 3, 5])
            c.params = {"window_width": width, "window_stride": tape.choice("sw.stride", [1, 2]),
                        "pad_width": tape.choice("sw.pad", [0, 1])}
            c.kernel = tape.choice("sw.kernel", [None, "average", "differences"])
            minlen = width + 2
        c.pool = [draw_numseq(tape, "sw.seq", minlen, 14) for _ in range(tape.between("sw.pool", 4, 9))]
        # sometimes the sequences do not all have one dtype (int64 / float32 / float64 with values that float32 cannot
        # hold): what an item's windows are must not depend on which item happens to come first in the batch
        c.mixed = tape.chance("sw.mixed", 1, 2)
        if c.mixed:
            for j in range(len(c.pool)):
                kind = tape.draw("sw.dtype", 3)
                if kind == 1:
                    c.pool[j] = np.floor(c.pool[j]).astype(np.int64)
                elif kind == 2:
                    c.pool[j] = (c.pool[j] / 3.0).astype(np.float32)
                else:
                    c.pool[j] = c.pool[j] / 3.0
        c.train_ids = list(range(tape.between("sw.ntrain", 1, len(c.pool) - 1)))
        c.desc.update(params=dict(c.params), kernel=getattr(c, "kernel", None), pool=len(c.pool), mixed_dtypes=c.mixed)
        return c

    def param_objects(self):
        k = getattr(self, "kernel", None)
        if k == "average":
            return {"kernels": ["average"]}
        if k == "differences":
            return {"kernels": [("differences", 0, 1, 1)]}
        return {}

    def rows(self, out, n):
        return [np.asarray(r) for r in out]


# ----------------------------------------------------------------------------- optimal transport family
class WassersteinCase(Case):
    tol = 1e-8

    @classmethod
    def draw(cls, tape, ctx):
        from vectorizers import WassersteinVectorizer, SinkhornVectorizer, ApproximateWassersteinVectorizer
        which = tape.weighted("ot.which", [(5, "W-exact-spmatrix"), (3, "W-exact-lil"), (3, "W-exact-generator"),
                                           (2, "W-sinkhorn"), (1, "W-heuristic"), (2, "Sinkhorn"), (1, "ApproxW")])
        params = getattr(ctx, "cfg", {}).get("params", {})
        if params.get("ot_variants"):
            allowed = params["ot_variants"]
            if which not in allowed:
                which = allowed[tape.draw("ot.which2", len(allowed))]
        c = cls(which)
        c.which = which
        # mostly tiny shapes; sometimes (compiled mode, where it is affordable) a shape for which the randomized SVD
        # is not exact: LOT dimension 64 and 20-row blocks, both above n_components + 10 oversamples
        c.big_shape = (not ctx.interp) and which in ("W-exact-spmatrix", "W-exact-lil", "W-exact-generator") \
            and tape.chance("ot.big_shape", 1, 5)
        c.n_vec = tape.choice("ot.nvec", [4, 6, 8]) if not c.big_shape else 12
        c.dim = tape.choice("ot.dim", [2, 3]) if not c.big_shape else 4
        c.vectors = np.asarray([[(tape.draw("ot.vcoord", 17) - 8) / 4.0 + (0.125 if j == 0 else 0.0) for j in range(c.dim)]
                                for _ in range(c.n_vec)], dtype=np.float64)
        # make sure no vector is zero (cosine metric)
        for i in range(c.n_vec):
            if not np.any(c.vectors[i]):
                c.vectors[i, 0] = 1.0
        # sometimes one support point lies far away from everything else (un-normalised embeddings): under a
        # euclidean cost exp(-cost/regularisation) then underflows for it
        c.outlier = tape.chance("ot.outlier", 1, 6)
        if c.outlier:
            c.vectors[c.n_vec - 1] *= 512.0
        n_rows = tape.between("ot.nrows", 7, 13) if not c.big_shape else tape.between("ot.nrows_big", 64, 80)
        c.base = draw_counts(tape, "ot.dist", n_rows, c.n_vec, min(4, c.n_vec), allow_empty_row=False)
        # some consecutive rows share their support but not their weights (same points, different masses)
        if tape.chance("ot.same_support", 1, 3):
            b = c.base.tolil()
            for i in range(1, n_rows):
                if tape.chance("ot.copy_support", 1, 3):
                    cols = b.rows[i - 1]
                    b.rows[i] = list(cols)
                    b.data[i] = [float(1 + tape.draw("ot.cnt2", 6)) for _ in cols]
            c.base = b.tocsr()
        c.pool = list(range(n_rows))
        ntrain = tape.between("ot.ntrain", 5, n_rows - 1) if not c.big_shape else 60
        c.train_ids = list(range(ntrain))
        c.metric = tape.choice("ot.metric", ["cosine", "euclidean"])
        ref_size = tape.choice("ot.refsize", [2, 3, 5]) if not c.big_shape else 16
        n_comp = tape.choice("ot.ncomp", [2, 3])
        # memory_size small enough to force block-wise fits (the scratch-file path) most of the time
        lot_dim = ref_size * c.dim
        # 512 rows per block makes the kernels' inner chunk size (max(256, block_size // 64)) smaller than a block
        rows_per_block = tape.weighted("ot.block", [(3, 2), (3, 3), (2, 4), (1, 1), (1, 512), (2, 10 ** 6)])
        if c.big_shape:
            rows_per_block = 20
        mem = max(1, rows_per_block * lot_dim * 8)
        c.memory_size = f"{mem}" if mem < 10 ** 8 else "2G"
        c.rows_per_block = rows_per_block
        # spmatrix fits with user-supplied reference vectors raise UnboundLocalError('block_size') on this tree
        # (consistently: not a C12 / C13 matter), so only lil / generator cases use them
        c.user_reference = which in ("W-exact-generator",) or (which == "W-exact-lil" and tape.chance("ot.userref", 1, 2))
        c.ref_vectors = np.asarray([[(tape.draw("ot.rcoord", 17) - 8) / 4.0 + 0.0625 for _ in range(c.dim)]
                                    for _ in range(ref_size)], dtype=np.float64)
        for i in range(ref_size):
            if not np.any(c.ref_vectors[i]):
                c.ref_vectors[i, 0] = 1.0
        c.ref_dist = np.full(ref_size, 1.0 / ref_size)
        c.use_cachedir = tape.chance("ot.cachedir", 1, 2)
        c.cachedir_form = tape.weighted("ot.cachedir_form", [(3, "str"), (1, "pathlib"), (1, "trailing-slash"), (1, "relative")])
        rs = tape.choice("ot.rs", [0, 3, 42])
        if which.startswith("W-"):
            c.cls = WassersteinVectorizer
            method = {"W-exact-spmatrix": "LOT_exact", "W-exact-lil": "LOT_exact", "W-exact-generator": "LOT_exact",
                      "W-sinkhorn": "LOT_sinkhorn", "W-heuristic": "HeuristicLinearAlgebra"}[which]
            imeth = {"W-exact-lil": "lil", "W-exact-generator": "generator"}.get(which, "spmatrix")
            c.input_method = imeth
            c.params = {"method": method, "input_method": imeth, "n_components": n_comp, "reference_size": ref_size,
                        "metric": c.metric, "memory_size": c.memory_size, "random_state": rs, "n_svd_iter": 3,
                        "max_distribution_size": tape.weighted("ot.maxdist", [(3, 16), (1, 2), (1, 3)])}
            if method == "LOT_sinkhorn":
                c.params["sinkhorn_chunk_size"] = tape.choice("ot.chunk", [2, 3, 32])
            if imeth == "generator":
                c.params["generator_vector_dim"] = c.dim
                c.params["generator_n_distributions"] = ntrain
            c.knobs = {"memory_size": [f"{lot_dim * 8}", f"{2 * lot_dim * 8}", f"{3 * lot_dim * 8}", f"{300 * lot_dim * 8}",
                                       f"{512 * lot_dim * 8}", "2G"]}
            if method == "LOT_sinkhorn":
                c.knobs["sinkhorn_chunk_size"] = [1, 2, 3, 5, 32]
            if method == "HeuristicLinearAlgebra":
                c.knobs = {}
                c.user_reference = False
                c.params["heuristic_normalization_power"] = tape.choice("ot.hpower", [1.0, 0.66, 0.5])
        elif which == "Sinkhorn":
            c.cls = SinkhornVectorizer
            c.input_method = "spmatrix"
            c.params = {"n_components": n_comp, "reference_size": ref_size, "metric": c.metric,
                        "memory_size": c.memory_size, "random_state": rs, "n_svd_iter": 3,
                        "chunk_size": tape.choice("ot.chunk", [2, 3, 32])}
            c.knobs = {"memory_size": [f"{lot_dim * 8}", f"{2 * lot_dim * 8}", f"{512 * lot_dim * 8}", "2G"], "chunk_size": [1, 2, 3, 5, 32]}
        else:
            c.cls = ApproximateWassersteinVectorizer
            c.input_method = "spmatrix"
            c.params = {"n_components": min(n_comp, c.dim), "random_state": rs, "n_svd_iter": 3,
                        "normalization_power": tape.choice("ot.hpower", [1.0, 0.66, 0.5])}
            c.user_reference = False
            c.knobs = {}
        c.in_format = tape.weighted("ot.fmt", [(3, "csr"), (1, "dense")]) if c.input_method == "spmatrix" else c.input_method
        c.arpack_degenerate = c.is_arpack_degenerate(c.train_ids)
        c.desc.update(params=dict(c.params), n_vectors=c.n_vec, dim=c.dim, n_rows=n_rows, ntrain=ntrain,
                      rows_per_block=rows_per_block, user_reference=c.user_reference, in_format=c.in_format,
                      use_cachedir=c.use_cachedir, cachedir_form=c.cachedir_form if c.use_cachedir else None,
                      arpack_degenerate_spectrum=c.arpack_degenerate, far_outlier_vector=c.outlier)
        return c

    def is_arpack_degenerate(self, ids):
        if self.user_reference or self.which not in ("W-exact-spmatrix", "W-sinkhorn", "Sinkhorn"):
            return False
        # the reference centre comes from svds(X, k=1): not unique when the two largest singular values coincide
        tr = self.base[list(ids)].toarray().astype(np.float64)
        tr = tr / np.maximum(tr.sum(axis=1, keepdims=True), 1e-300)
        return degenerate_spectrum(tr, 1)

    def ctor_kwargs(self, pobjs):
        kw = dict(self.params)
        if self.use_cachedir and "cachedir" in self.cls.__init__.__code__.co_varnames and getattr(self, "sandbox", None):
            # the same directory, named the ways a caller may name it
            form = getattr(self, "cachedir_form", "str")
            if form == "pathlib":
                import pathlib
                kw["cachedir"] = pathlib.Path(self.sandbox)
            elif form == "trailing-slash":
                kw["cachedir"] = self.sandbox + os.sep
            elif form == "relative":
                kw["cachedir"] = os.path.relpath(self.sandbox)
            else:
                kw["cachedir"] = self.sandbox
        return kw

    def _lil(self, ids):
        # a caller who duplicates an item passes the very same array objects twice: keep that aliasing
        dists, vecs = [], []
        made = {}
        for i in ids:
            if i not in made:
                row = self.base[i]
                idx = row.indices
                made[i] = (np.asarray(row.data, dtype=np.float64).copy(), np.ascontiguousarray(self.vectors[idx].copy()))
            dists.append(made[i][0])
            vecs.append(made[i][1])
        return dists, vecs

    def _vectors(self, alt):
        v = self.vectors.copy()
        if alt:
            # same shape, different contents: a second vector table for the same fitted model
            v[0, 0] += 0.5
            v[-1, -1] -= 0.25
        return v

    def build(self, ids, for_fit=False, reader_fault=None, reader_stats=None, invalid_at=None, invalid_kind=None, alt_vectors=False):
        ids = list(ids)
        if alt_vectors:
            saved = self.vectors
            self.vectors = self._vectors(True)
            try:
                return self.build(ids, for_fit, reader_fault, reader_stats, invalid_at, invalid_kind, False)
            finally:
                self.vectors = saved
        if self.input_method == "spmatrix":
            m = self.base[ids].tocsr().copy()
            if invalid_at is not None and len(ids) > 0:
                j = min(invalid_at, len(ids) - 1)
                m = m.tolil()
                if invalid_kind == "nan":
                    m[j, 0] = np.nan
                elif invalid_kind == "negative":
                    m[j, 0] = -1.0
                else:
                    m[j, :] = 0.0
                m = m.tocsr()
            if self.in_format == "dense":
                m = m.toarray()
            return m, {"vectors": self.vectors.copy()}
        dists, vecs = self._lil(ids)
        if invalid_at is not None and len(ids) > 0:
            j = min(invalid_at, len(ids) - 1)
            if invalid_kind == "nan":
                dists[j][0] = np.nan
            elif invalid_kind == "negative":
                dists[j][0] = -1.0
            else:
                vecs[j] = np.ascontiguousarray(np.ones((vecs[j].shape[0], self.dim + 1)))
        if self.input_method == "lil":
            return dists, {"vectors": vecs}
        # generator: the simulated readers
        fx = reader_fault if reader_fault and reader_fault[2] == "X" else None
        fv = reader_fault if reader_fault and reader_fault[2] == "vectors" else None
        return reader(dists, fx and fx[:2], reader_stats), {"vectors": reader(vecs, fv and fv[:2], reader_stats)}

    def fit_extra(self, ids):
        kw = {}
        if self.user_reference and self.which != "ApproxW" and self.params.get("method") != "HeuristicLinearAlgebra":
            kw["reference_vectors"] = self.ref_vectors.copy()
            kw["reference_distribution"] = self.ref_dist.copy()
        return kw

    def call_fit(self, est, method, X, kw):
        if self.input_method == "generator":
            est.generator_n_distributions = self._n_for_call
        return getattr(est, method)(X, **kw)

    def call_transform(self, est, X, kw):
        if self.input_method == "generator":
            est.generator_n_distributions = self._n_for_call
        if self.which == "ApproxW":
            return est.transform(X)
        return est.transform(X, **kw)

    def rows(self, out, n):
        out = np.asarray(out)
        return [out[i] for i in range(out.shape[0])]


# ----------------------------------------------------------------------------- co-occurrence family (C13 only)
class CoocCase(Case):
    rowwise = False
    tol = 1e-6
    uses_dask = True
    supports_invalid_doc = True

    @classmethod
    def draw(cls, tape, ctx):
        import vectorizers
        kind = tape.weighted("co.kind", [(3, "token"), (2, "timed"), (2, "multiset"), (2, "ngram")])
        params = getattr(ctx, "cfg", {}).get("params", {})
        if params.get("cooc_kinds") and kind not in params["cooc_kinds"]:
            kind = params["cooc_kinds"][tape.draw("co.kind2", len(params["cooc_kinds"]))]
        name = {"token": "TokenCooccurrenceVectorizer", "timed": "TimedTokenCooccurrenceVectorizer",
                "multiset": "MultiSetCooccurrenceVectorizer", "ngram": "NgramCooccurrenceVectorizer"}[kind]
        c = cls(name)
        c.kind = kind
        c.cls = getattr(vectorizers, name)
        vocab = tape.choice("co.vocab", [3, 5, 8])
        allow_empty = kind != "multiset"
        docs = draw_docs(tape, tape.between("co.pool", 4, 9), vocab + 1, 12, "co.doc", allow_empty=allow_empty)
        c.docs = docs
        c.pool = list(range(len(docs)))
        c.train_ids = list(range(tape.between("co.ntrain", 2, len(docs) - 1)))
        directional = tape.chance("co.directional", 1, 2)
        c.params = {"window_radii": tape.choice("co.radius", [1, 2, 3]),
                    "window_orientations": "directional" if directional else tape.choice("co.orient", ["after", "before"]),
                    "normalize_windows": tape.chance("co.normwin", 1, 2),
                    "n_threads": tape.weighted("co.n_threads", [(2, 1), (2, 2), (1, 3)]),
                    "n_iter": tape.weighted("co.n_iter", [(4, 0), (1, 1)]),
                    "coo_initial_memory": tape.choice("co.mem", ["1k", "8k", "0.5 GiB"])}
        if not ctx.interp:
            # keep the set of numba type-shapes small (see plans.py)
            c.params["window_orientations"] = "directional"
        if ctx.interp:
            kern = {"token": ["flat", "harmonic", "geometric"], "ngram": ["flat", "geometric"],
                    "timed": ["flat", "geometric"], "multiset": ["flat", "geometric"]}[kind]
            c.params["kernel_functions"] = tape.weighted("co.kernel", [(3, kern[0])] + [(1, k) for k in kern[1:]])
        # timed data: per-document time step (so that the mean inter-arrival time differs between training subsets)
        c.time_steps = [tape.choice("co.dt", [1.0, 0.5, 2.0]) for _ in docs] if kind == "timed" else None
        mp = _mask_params(tape, "co") if (ctx.interp or params.get("cooc_masks")) else {}
        c.params.update(mp)
        if kind == "ngram":
            c.params["ngram_size"] = tape.choice("co.ngram", [1, 2])
        c.user_dict = {f"w{i}": i for i in range(vocab)} if tape.chance("co.userdict", 1, 3) else None
        c.kargs = {"normalize": True} if (kind != "multiset" and tape.chance("co.kargs", 1, 4)) else None
        c.excluded = {"w0"} if tape.chance("co.excluded", 1, 5) else None
        c.multi = tape.between("co.multi", 1, 2) if kind == "multiset" else 1
        c.mixw = [tape.choice("co.mixw", [1.0, 2.0, 0.5])] if tape.chance("co.mix", 1, 4) else None
        c.desc.update(params=dict(c.params), user_token_dictionary=c.user_dict is not None, kernel_args=c.kargs,
                      excluded_tokens=sorted(c.excluded) if c.excluded else None, pool=len(docs), ntrain=len(c.train_ids))
        return c

    def param_objects(self):
        d = {}
        if self.user_dict is not None:
            d["token_dictionary"] = dict(self.user_dict)
        if self.kargs is not None:
            d["kernel_args"] = dict(self.kargs)
        if self.excluded is not None:
            d["excluded_tokens"] = set(self.excluded)
        if self.mixw is not None:
            d["mix_weights"] = np.asarray(self.mixw, dtype=np.float64)
        return d

    def build(self, ids, for_fit=False, invalid_at=None, invalid_kind=None):
        X, kw = self._build(ids)
        if invalid_at is not None and X:
            _spoil_doc(X, min(invalid_at, len(X) - 1), invalid_kind)
        return X, kw

    def _build(self, ids):
        docs = [list(self.docs[i]) for i in ids]
        if self.kind in ("token", "ngram"):
            return docs, {}
        if self.kind == "timed":
            out = []
            for i, d in zip(ids, docs):
                t = 0.0
                seq = []
                for tok in d:
                    t += self.time_steps[i]
                    seq.append([tok, t])
                out.append(seq)
            return out, {}
        return [[list(d[i:i + self.multi]) for i in range(0, len(d), self.multi)] for d in docs], {}

    def rows(self, out, n):
        return [out]


class TreeCase(Case):
    rowwise = False
    tol = 1e-8

    @classmethod
    def draw(cls, tape, ctx):
        from vectorizers import LabelledTreeCooccurrenceVectorizer
        c = cls("LabelledTreeCooccurrenceVectorizer")
        c.cls = LabelledTreeCooccurrenceVectorizer
        vocab = tape.choice("tr.vocab", [3, 5])
        trees = []
        for _ in range(tape.between("tr.pool", 3, 7)):
            n = tape.between("tr.nodes", 2, 8)
            parent = [0] + [tape.draw("tr.parent", i) for i in range(1, n)]
            adj = scipy.sparse.lil_matrix((n, n), dtype=np.float64)
            for i in range(1, n):
                adj[parent[i], i] = 1.0
            labels = [f"w{tape.draw('tr.label', vocab + 1)}" for _ in range(n)]
            trees.append((adj.tocsr(), labels))
        c.trees = trees
        c.pool = list(range(len(trees)))
        c.train_ids = list(range(tape.between("tr.ntrain", 1, len(trees) - 1)))
        c.params = {"window_radius": tape.choice("tr.radius", [1, 2, 3]),
                    "window_orientation": tape.choice("tr.orient", ["directional", "before", "after"]),
                    "kernel_function": tape.choice("tr.kernel", ["flat", "geometric"])}
        mk = tape.weighted("tr.mask", [(3, "none"), (1, "mask"), (1, "nullify")])
        if mk != "none":
            c.params.update(mask_string="[M]", min_occurrences=2, nullify_mask=(mk == "nullify"))
        c.user_dict = {f"w{i}": i for i in range(vocab)} if tape.chance("tr.userdict", 1, 3) else None
        c.adj_format = tape.weighted("tr.adjfmt", [(3, "csr"), (2, "lil"), (1, "coo"), (1, "dense")])
        c.desc.update(params=dict(c.params), user_token_dictionary=c.user_dict is not None, pool=len(trees),
                      adjacency_format=c.adj_format)
        return c

    def param_objects(self):
        d = {"kernel_args": {}}
        if self.user_dict is not None:
            d["token_dictionary"] = dict(self.user_dict)
        return d

    def build(self, ids, for_fit=False):
        out = []
        for i in ids:
            adj = self.trees[i][0]
            if self.adj_format == "lil":
                adj = adj.tolil()
            elif self.adj_format == "dense":
                adj = adj.toarray()
            elif self.adj_format == "coo":
                adj = adj.tocoo()
            else:
                adj = adj.copy()
            out.append((adj, list(self.trees[i][1])))
        return out, {}

    def rows(self, out, n):
        return [out]


class EdgeListCase(Case):
    rowwise = False
    exact = True
    tol = 0

    @classmethod
    def draw(cls, tape, ctx):
        from vectorizers import EdgeListVectorizer
        c = cls("EdgeListVectorizer")
        c.cls = EdgeListVectorizer
        nr, nc = tape.choice("el.nr", [3, 5]), tape.choice("el.nc", [3, 6])
        c.edges = [(f"r{tape.draw('el.r', nr + 1)}", f"c{tape.draw('el.c', nc + 1)}", float(1 + tape.draw("el.v", 4)))
                   for _ in range(tape.between("el.n", 6, 20))]
        c.pool = list(range(len(c.edges)))
        c.train_ids = list(range(tape.between("el.ntrain", 3, len(c.edges) - 1)))
        c.user_rows = {f"r{i}": i for i in range(nr)} if tape.chance("el.userrows", 1, 2) else None
        c.user_cols = {f"c{i}": i for i in range(nc)} if tape.chance("el.usercols", 1, 2) else None
        c.params = {}
        if tape.chance("el.joint", 1, 3):
            # both columns over one label space; at most one user dictionary is allowed then
            c.params = {"joint_space": True}
            c.edges = [(a.replace("r", "n"), b.replace("c", "n"), v) for a, b, v in c.edges]
            c.user_cols = None
            if c.user_rows is not None:
                c.user_rows = {f"n{i}": i for i in range(max(nr, nc) + 1)}
        # how the caller holds the edge list: list of tuples | (n,3) object ndarray | (3,n) object ndarray | tuple of
        # columns; and the Python / numpy type of every weight (the same number whatever the type)
        c.container = tape.draw("el.container", 4)
        c.wtypes = [tape.draw("el.wtype", 3) for _ in c.edges]
        c.desc.update(user_rows=c.user_rows is not None, user_cols=c.user_cols is not None, n_edges=len(c.edges), params=dict(c.params),
                      container=c.container)
        return c

    def param_objects(self):
        d = {}
        if self.user_rows is not None:
            d["row_label_dictionary"] = dict(self.user_rows)
        if self.user_cols is not None:
            d["column_label_dictionary"] = dict(self.user_cols)
        return d

    def build(self, ids, for_fit=False):
        def w(i):
            v = self.edges[i][2]
            return (v, int(v), np.int64(v))[self.wtypes[i]]
        rows = [(self.edges[i][0], self.edges[i][1], w(i)) for i in ids]
        if self.container == 1 or self.container == 2:
            a = np.empty((len(rows), 3), dtype=object)
            for j, r in enumerate(rows):
                a[j, 0], a[j, 1], a[j, 2] = r
            if self.container == 2 and len(rows) != 3:
                a = np.ascontiguousarray(a.T)
            return a, {}
        if self.container == 3 and len(rows) != 3:
            return tuple([r[k] for r in rows] for k in range(3)), {}
        return rows, {}

    def rows(self, out, n):
        return [out]


class CategoricalCase(Case):
    rowwise = False
    exact = True
    tol = 0
    has_transform = False

    @classmethod
    def draw(cls, tape, ctx):
        from vectorizers.transformers import CategoricalColumnTransformer
        c = cls("CategoricalColumnTransformer")
        c.cls = CategoricalColumnTransformer
        n = tape.between("cc.n", 4, 12)
        c.records = [(f"o{tape.draw('cc.obj', 4)}", f"a{tape.draw('cc.a', 3)}", f"b{tape.draw('cc.b', 3)}") for _ in range(n)]
        c.pool = list(range(n))
        c.train_ids = list(range(n))
        two = tape.chance("cc.two", 1, 2)
        c.params = {"object_column_name": "obj", "include_column_name": tape.chance("cc.incl", 1, 2),
                    "unique_values": tape.chance("cc.uniq", 1, 2)}
        c.two = two
        c.desc.update(params=dict(c.params), two_columns=two, n=n)
        return c

    def param_objects(self):
        return {"descriptor_column_name": ["a", "b"] if self.two else "a"}

    def build(self, ids, for_fit=False):
        import pandas as pd
        recs = [self.records[i] for i in ids]
        return pd.DataFrame({"obj": [r[0] for r in recs], "a": [r[1] for r in recs], "b": [r[2] for r in recs]}), {}

    def rows(self, out, n):
        return [out]


ROWWISE = [NgramCase, SkipgramCase, LZCase, BPECase, HistogramCase, KDECase, DistributionCase, WassersteinCase,
           InfoWeightCase, RowDenoiseCase, CFCCase, SlidingWindowCase]
ALL = ROWWISE + [CoocCase, TreeCase, EdgeListCase, CategoricalCase]
BY_NAME = {c.__name__: c for c in ALL}
