"""Deep, numpy- and scipy-aware snapshots of caller-owned objects, and comparison.

A snapshot records, for every array reachable from the object, its bytes, dtype and
shape -- the arrays themselves, because a caller may hold views of them; for
sparse matrices: format, shape, and each of indptr / indices / data (row / col for
COO); for dicts: items in insertion order; for sets: sorted reprs.
``diff(a, b)`` returns a human-readable path of the first difference or None.
"""
import numpy as np
import scipy.sparse


def snap(o, depth=0):
    if depth > 6:
        return ("deep", repr(type(o)))
    # the type is part of a scalar's snapshot: 3 -> 3.0 or True -> 1.0 written back into a caller's object array
    # is a modification that value equality (3 == 3.0) does not see
    if o is None or isinstance(o, (bool, int, float, str, bytes, complex)):
        return ("v", o if not (isinstance(o, float) and o != o) else "nan", type(o).__name__)
    if isinstance(o, np.generic):
        return ("v", o.item() if o == o else "nan", type(o).__name__)
    if isinstance(o, np.ndarray):
        if o.dtype == object:
            return ("objarr", o.shape, tuple(snap(x, depth + 1) for x in o.ravel().tolist()))
        return ("arr", str(o.dtype), o.shape, np.ascontiguousarray(o).tobytes())
    if scipy.sparse.issparse(o):
        fmt = o.format
        parts = {"shape": tuple(o.shape), "dtype": str(o.dtype)}
        for name in ("indptr", "indices", "data", "row", "col", "offsets"):
            if hasattr(o, name):
                a = getattr(o, name)
                if isinstance(a, np.ndarray):
                    parts[name] = snap(a, depth + 1)
        if fmt == "lil":
            parts["rows"] = snap(list(o.rows), depth + 1)
            parts["lildata"] = snap(list(o.data), depth + 1)
        return ("sparse", fmt, tuple(sorted(parts.items())))
    if isinstance(o, dict):
        return ("dict", tuple((snap(k, depth + 1), snap(v, depth + 1)) for k, v in o.items()))
    if isinstance(o, (list, tuple)):
        return ("seq", type(o).__name__, tuple(snap(x, depth + 1) for x in o))
    if isinstance(o, (set, frozenset)):
        return ("set", tuple(sorted(repr(x) for x in o)))
    try:
        import pandas as pd
        if isinstance(o, pd.DataFrame):
            return ("df", tuple(o.columns), tuple(str(t) for t in o.dtypes), tuple(map(tuple, o.index.tolist())) if o.index.nlevels > 1 else tuple(o.index.tolist()),
                    tuple(snap(o[c].tolist(), depth + 1) for c in o.columns))
        if isinstance(o, pd.Series):
            return ("series", str(o.dtype), tuple(o.index.tolist()), snap(o.tolist(), depth + 1))
    except ImportError:
        pass
    # numba typed containers
    tn = type(o).__name__
    if tn == "List" and hasattr(o, "_numba_type_"):
        return ("tlist", tuple(snap(x, depth + 1) for x in o))
    if tn == "Dict" and hasattr(o, "_numba_type_"):
        return ("tdict", tuple((snap(k, depth + 1), snap(v, depth + 1)) for k, v in o.items()))
    if callable(o):
        return ("callable", getattr(o, "__name__", repr(type(o))))
    return ("repr", repr(o)[:200])


def diff(a, b, path=""):
    if a == b:
        return None
    if type(a) is not type(b) or not isinstance(a, tuple) or a[0] != b[0]:
        return f"{path}: kind changed {_short(a)} -> {_short(b)}"
    k = a[0]
    if k == "arr":
        if a[1] != b[1] or a[2] != b[2]:
            return f"{path}: array dtype/shape {a[1]}{a[2]} -> {b[1]}{b[2]}"
        x = np.frombuffer(a[3], dtype=a[1])
        y = np.frombuffer(b[3], dtype=b[1])
        idx = np.flatnonzero(~((x == y) | ((x != x) & (y != y)))) if x.dtype.kind in "fc" else np.flatnonzero(x != y)
        if idx.size == 0:
            return None
        i = int(idx[0])
        return f"{path}: {idx.size} of {x.size} array elements changed, e.g. [{i}] {x[i]!r} -> {y[i]!r}"
    if k == "dict":
        ka = [x[0] for x in a[1]]
        kb = [x[0] for x in b[1]]
        if ka != kb:
            added = [x[1] for x in kb if x not in ka]
            removed = [x[1] for x in ka if x not in kb]
            return f"{path}: dict keys changed (added {added[:4]}, removed {removed[:4]}, order changed={sorted(map(repr, ka)) == sorted(map(repr, kb))})"
        for (k1, v1), (k2, v2) in zip(a[1], b[1]):
            d = diff(v1, v2, f"{path}[{k1[1]!r}]")
            if d:
                return d
        return f"{path}: dict changed"
    if k in ("seq", "tlist", "objarr"):
        xa = a[-1]
        xb = b[-1]
        if len(xa) != len(xb):
            return f"{path}: length {len(xa)} -> {len(xb)}"
        for i, (u, v) in enumerate(zip(xa, xb)):
            d = diff(u, v, f"{path}[{i}]")
            if d:
                return d
        return f"{path}: sequence changed"
    if k == "sparse":
        if a[1] != b[1]:
            return f"{path}: sparse format {a[1]} -> {b[1]}"
        da, db = dict(a[2]), dict(b[2])
        for name in da:
            if da[name] != db.get(name):
                if isinstance(da[name], tuple) and isinstance(db.get(name), tuple) and da[name][0] == "arr":
                    return diff(da[name], db[name], f"{path}.{name}")
                return f"{path}.{name}: {_short(da[name])} -> {_short(db.get(name))}"
        return f"{path}: sparse changed"
    if k == "set":
        return f"{path}: set changed (added {sorted(set(b[1]) - set(a[1]))[:4]}, removed {sorted(set(a[1]) - set(b[1]))[:4]})"
    if k == "v":
        return f"{path}: {a[1]!r} ({a[2]}) -> {b[1]!r} ({b[2]})"
    return f"{path}: changed ({k})"


def _short(s):
    r = repr(s)
    return r if len(r) < 80 else r[:77] + "..."
