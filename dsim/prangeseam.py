"""The prange seam (interp mode only): ``for v in numba.prange(n): BODY`` is outlined and run by
simulated workers whose count, partition of the iteration space and interleaving come from the tape.

With NUMBA_DISABLE_JIT=1 every @njit function is the plain Python function and module
attributes are looked up at call time, so a function can be replaced by a rewritten version
(the rewrite is done here, from the tree's current source; nothing in /repo changes).

Rewrite (AST):
  * names plainly assigned in BODY become locals of the outlined function -- numba's
    "private per iteration" semantics;
  * an augmented assignment to a *name* defined before the loop (``result += d*d``) is a numba
    reduction: each simulated worker accumulates a private partial, partials are combined in
    worker order after the loop (so the summation order varies with the drawn partition);
  * subscripted stores (``result[i, j] = d``) are shared-memory writes and stay as written.

Pre-emption inside an outlined body is at *instruction* granularity (sys.monitoring INSTRUCTION
events on the body's code object), so a read-modify-write on one source line can be torn.
"""
import ast
import inspect
import sys
import textwrap
import threading

from .sched import Scheduler, SimTask, set_instruction_events

ACTIVE = {"tape": None, "roots": None, "stats": None}
_body_codes = set()


class _Outliner(ast.NodeTransformer):
    def __init__(self):
        self.count = 0
        self.assigned_before = set()

    def visit_FunctionDef(self, node):
        # only rewrite top-level statements of the function body (the loops we target are there)
        new_body = []
        assigned = {a.arg for a in node.args.args}
        for stmt in node.body:
            if isinstance(stmt, ast.For) and _is_prange(stmt.iter):
                new_body.extend(self._outline(stmt, assigned))
            else:
                new_body.append(stmt)
            for n in ast.walk(stmt):
                if isinstance(n, ast.Name) and isinstance(n.ctx, ast.Store):
                    assigned.add(n.id)
        node.body = new_body
        node.decorator_list = []
        return node

    def _outline(self, loop, assigned_before):
        self.count += 1
        k = self.count
        var = loop.target.id
        # reductions: AugAssign to a Name that was assigned before the loop and is not plainly assigned in BODY
        plain = set()
        aug = set()
        for n in ast.walk(ast.Module(body=loop.body, type_ignores=[])):
            if isinstance(n, ast.Assign):
                for t in n.targets:
                    for m in ast.walk(t):
                        if isinstance(m, ast.Name) and isinstance(m.ctx, ast.Store):
                            plain.add(m.id)
            elif isinstance(n, ast.AugAssign) and isinstance(n.target, ast.Name):
                aug.add(n.target.id)
        reds = sorted(x for x in aug if x in assigned_before and x not in plain)

        class Red(ast.NodeTransformer):
            def visit_AugAssign(self, n):
                self.generic_visit(n)
                if isinstance(n.target, ast.Name) and n.target.id in reds:
                    sub = ast.Subscript(value=ast.Name(id="__dsim_red", ctx=ast.Load()),
                                        slice=ast.Constant(value=n.target.id), ctx=ast.Store())
                    return ast.copy_location(ast.AugAssign(target=sub, op=n.op, value=n.value), n)
                return n

        body = [Red().visit(s) for s in loop.body]
        fname = f"__dsim_body_{k}"
        fdef = ast.FunctionDef(
            name=fname,
            args=ast.arguments(posonlyargs=[], args=[ast.arg(arg=var), ast.arg(arg="__dsim_red")], kwonlyargs=[],
                               kw_defaults=[], defaults=[]),
            body=body, decorator_list=[], returns=None, type_comment=None, type_params=[])
        ast.copy_location(fdef, loop)
        call = ast.Assign(
            targets=[ast.Name(id="__dsim_partials", ctx=ast.Store())],
            value=ast.Call(func=ast.Name(id="__dsim_parallel_for", ctx=ast.Load()),
                           args=[loop.iter.args[0], ast.Name(id=fname, ctx=ast.Load()),
                                 ast.List(elts=[ast.Constant(value=r) for r in reds], ctx=ast.Load())], keywords=[]))
        ast.copy_location(call, loop)
        out = [fdef, call]
        for r in reds:
            # for __p in __dsim_partials: r += __p[r]
            comb = ast.For(target=ast.Name(id="__dsim_p", ctx=ast.Store()), iter=ast.Name(id="__dsim_partials", ctx=ast.Load()),
                           body=[ast.AugAssign(target=ast.Name(id=r, ctx=ast.Store()), op=ast.Add(),
                                               value=ast.Subscript(value=ast.Name(id="__dsim_p", ctx=ast.Load()),
                                                                   slice=ast.Constant(value=r), ctx=ast.Load()))],
                           orelse=[], type_comment=None)
            ast.copy_location(comb, loop)
            out.append(comb)
        return out


def _is_prange(node):
    return (isinstance(node, ast.Call) and isinstance(node.func, ast.Attribute) and node.func.attr == "prange"
            and isinstance(node.func.value, ast.Name) and node.func.value.id == "numba")


def outline(module, func_name):
    """Replace module.func_name by its outlined version; returns (original, number of loops outlined)."""
    orig = getattr(module, func_name)
    pyfunc = getattr(orig, "py_func", orig)
    src = textwrap.dedent(inspect.getsource(pyfunc))
    tree = ast.parse(src)
    first_line = pyfunc.__code__.co_firstlineno
    o = _Outliner()
    tree = o.visit(tree)
    ast.fix_missing_locations(tree)
    # keep original line numbers so that tracing / replay files point at the real source
    ast.increment_lineno(tree, first_line - 1)
    code = compile(tree, pyfunc.__code__.co_filename, "exec")
    glb = module.__dict__
    glb["__dsim_parallel_for"] = parallel_for
    loc = {}
    exec(code, glb, loc)
    new = loc[func_name]
    new.__dsim_original__ = orig
    setattr(module, func_name, new)
    return orig, o.count


def parallel_for(n, body, red_names):
    n = int(n)
    tape = ACTIVE["tape"]
    if tape is None or n <= 0:
        red = {r: 0.0 for r in red_names}
        for i in range(n):
            body(i, red)
        return [red]
    stats = ACTIVE["stats"]
    code = body.__code__
    set_instruction_events([code], True)
    W = 1 + tape.draw("prange.workers", min(16, n))
    # partition: static contiguous chunks (numba's default) or smaller dynamic chunks dealt round-robin / drawn
    mode = tape.weighted("prange.partition", [(3, "static"), (2, "dynamic")])
    if mode == "static":
        bounds = [(w * n) // W for w in range(W + 1)]
        assign = [list(range(bounds[w], bounds[w + 1])) for w in range(W)]
    else:
        cs = 1 + tape.draw("prange.chunk", max(1, n // W))
        chunks = [list(range(s, min(n, s + cs))) for s in range(0, n, cs)]
        assign = [[] for _ in range(W)]
        for c in chunks:
            assign[tape.draw("prange.assign", W)].extend(c)
    reds = [{r: 0.0 for r in red_names} for _ in range(W)]
    sched = Scheduler(tape, ACTIVE["roots"], step_cap=4_000_000)
    if sched.runlen_n == 1:
        sched.runlen_n = 1  # never pre-empt: workers run one after another (the trivial schedule when W == 1)

    def make(w):
        def run():
            for i in assign[w]:
                body(i, reds[w])
        return run

    tasks = [SimTask(w, f"prange-w{w}", None) for w in range(W)]
    for w in range(W):
        tasks[w].fn = make(w)
    try:
        sched.run_graph(tasks, W)
    finally:
        set_instruction_events([code], False)
    if stats is not None:
        st = sched.stats()
        stats["loops"] = stats.get("loops", 0) + 1
        stats["workers"] = stats.get("workers", 0) + W
        stats["steps"] = stats.get("steps", 0) + st["steps"]
        stats["switches"] = stats.get("switches", 0) + st["switches"]
        stats["preempt_in_task"] = stats.get("preempt_in_task", 0) + st["preempt_in_task"]
        if W >= 2 and st["preempt_in_task"] >= 1:
            stats["interleaved_loops"] = stats.get("interleaved_loops", 0) + 1
        stats.setdefault("digests", []).append(sched.digest())
    return reds
