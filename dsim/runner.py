"""Orchestrator: spawns worker processes, aggregates, triages, minimises, reports.

Exit codes: 0 held on everything explored (known findings printed as
KNOWN-FINDING lines), 1 at least one unlisted violation (VIOLATION line per
class), 2 harness error / timeout / non-reproducible replay (never 0 after a
wall-clock kill).
"""
import json
import os
import shutil
import subprocess
import sys
import time

from .common import jdump, sig_hash

VERIF = os.path.dirname(os.path.dirname(os.path.abspath(__file__)))
PY = os.environ.get("VERIF_PYTHON", "/venv/bin/python")
WORKER = os.path.join(VERIF, "dsim", "worker.py")


def default_scratch():
    base = os.environ.get("VERIF_SCRATCH")
    if not base:
        base = "/dev/shm" if os.path.isdir("/dev/shm") and os.access("/dev/shm", os.W_OK) else "/var/tmp"
    d = os.path.join(base, f"verif-dsim-{os.getpid()}")
    os.makedirs(d, exist_ok=True)
    return d


def env_for(mode, hook_limit, scratch, tag, hashseed="0", extra=None):
    env = dict(os.environ)
    for k in ("NUMBA_DISABLE_JIT", "VECTORIZERS_VERIF", "VECTORIZERS_VERIF_COO_QUICKSORT_LIMIT"):
        env.pop(k, None)
    env["PYTHONHASHSEED"] = str(hashseed)
    env["PYTHONDONTWRITEBYTECODE"] = "1"
    env["NUMBA_CACHE_DIR"] = os.path.join(scratch, f"numba-cache-{tag}")
    env["OMP_NUM_THREADS"] = "1"
    env["OPENBLAS_NUM_THREADS"] = "1"
    env["MKL_NUM_THREADS"] = "1"
    if mode == "interp":
        env["NUMBA_DISABLE_JIT"] = "1"
    else:
        env.setdefault("NUMBA_NUM_THREADS", "4")
        if hook_limit:
            env["VECTORIZERS_VERIF"] = "1"
            env["VECTORIZERS_VERIF_COO_QUICKSORT_LIMIT"] = str(hook_limit)
    if extra:
        env.update({k: str(v) for k, v in extra.items()})
    return env


class Job:
    def __init__(self, cfg, env, kill_after):
        self.cfg = cfg
        self.env = env
        self.kill_after = kill_after
        self.proc = None
        self.t0 = None
        self.cfg_path = cfg["out"] + ".cfg.json"
        self.log_path = cfg["out"] + ".log"
        self.status = "pending"
        self.result = None

    def start(self):
        with open(self.cfg_path, "w") as f:
            json.dump(self.cfg, f)
        self.logf = open(self.log_path, "w")
        self.proc = subprocess.Popen([PY, WORKER, self.cfg_path], env=self.env, stdout=self.logf,
                                     stderr=subprocess.STDOUT, cwd=self.cfg["scratch"])
        self.t0 = time.time()
        self.status = "running"

    def poll(self):
        rc = self.proc.poll()
        if rc is None:
            if time.time() - self.t0 > self.kill_after:
                self.proc.kill()
                self.proc.wait()
                self.status = "killed"
                self.logf.close()
                return True
            return False
        self.logf.close()
        if rc == 0 and os.path.exists(self.cfg["out"]):
            try:
                self.result = json.load(open(self.cfg["out"]))
                self.status = "ok"
            except Exception:
                self.status = "died"
        else:
            self.status = "died"
        self.rc = rc
        return True

    def breadcrumb(self):
        try:
            idx, seed = open(self.cfg["out"] + ".progress").read().split()
            return int(idx), int(seed)
        except Exception:
            return None

    def log_tail(self, n=30):
        try:
            return "".join(open(self.log_path, errors="replace").readlines()[-n:])
        except Exception:
            return ""


def run_jobs(jobs, max_parallel):
    pending = list(jobs)
    running = []
    done = []
    while pending or running:
        while pending and len(running) < max_parallel:
            j = pending.pop(0)
            j.start()
            running.append(j)
        time.sleep(0.05)
        for j in list(running):
            if j.poll():
                running.remove(j)
                done.append(j)
    return done


def make_range_jobs(plan_item, prop, tier, base_seed, repo, scratch, tag_prefix):
    """Split one plan item over its workers (stride partition of the index range)."""
    jobs = []
    W = plan_item["workers"]
    for w in range(W):
        tag = f"{tag_prefix}-{plan_item['name']}-{w}"
        cfg = {
            "prop": prop, "layer": plan_item["layer"], "mode": plan_item["mode"],
            "variant": plan_item.get("variant", ""), "hook_limit": plan_item.get("hook_limit"),
            "repo": repo, "scratch": scratch, "base_seed": base_seed, "tier": tier,
            "start": plan_item.get("offset", 0) + w, "stop": plan_item.get("offset", 0) + plan_item["runs"],
            "step": W, "budget_s": plan_item["budget_s"],
            "hard_timeout": plan_item["budget_s"] + plan_item.get("grace_s", 240),
            "out": os.path.join(scratch, f"{tag}.json"), "n_samples": 2,
            "per_run": plan_item.get("per_run", False), "per_run_upto": plan_item.get("per_run_upto", 0),
            "offset0": plan_item.get("offset", 0), "params": plan_item.get("params", {}),
            "plan_name": plan_item["name"],
        }
        env = env_for(plan_item["mode"], plan_item.get("hook_limit"), scratch, tag,
                      hashseed=plan_item.get("hashseed", "0"), extra=plan_item.get("env"))
        jobs.append(Job(cfg, env, kill_after=cfg["hard_timeout"] + 60))
    return jobs


def single_run_job(base_cfg, env, scratch, tag, **over):
    cfg = dict(base_cfg)
    cfg.update(over)
    cfg["out"] = os.path.join(scratch, f"{tag}.json")
    cfg.setdefault("hard_timeout", 600)
    return Job(cfg, env, kill_after=cfg["hard_timeout"] + 30)


def load_known(path=None):
    path = path or os.path.join(VERIF, "known_findings.json")
    try:
        d = json.load(open(path))
    except FileNotFoundError:
        return {}, []
    return {f["signature"]: f for f in d.get("findings", [])}, d.get("fixed", [])


def write_replay(out_dir, prop, cfg, env_keys, v, minimised=None):
    os.makedirs(out_dir, exist_ok=True)
    path = os.path.join(out_dir, f"{prop}-{sig_hash(v['sig'])}-{v['seed']}.json")
    rep = {
        "property": prop, "layer": cfg["layer"], "mode": cfg["mode"], "variant": cfg.get("variant", ""),
        "hook_limit": cfg.get("hook_limit"), "params": cfg.get("params", {}), "env": env_keys,
        "seed": v["seed"], "index": v.get("index"), "signature": v["sig"], "message": v["msg"],
        "decoded": v.get("detail"), "tape": v.get("tape"), "minimised": False,
        "pair_hashseed": cfg.get("pair_hashseed"),
    }
    if minimised:
        rep.update(minimised)
    jdump(rep, path)
    return path


def replay_file(path, repo, scratch, tag="replay"):
    """Run a replay file in a fresh interpreter; returns the record dict or None (died)."""
    rep = json.load(open(path))
    env = env_for(rep["mode"], rep.get("hook_limit"), scratch, tag, extra=rep.get("env"))
    cfg = {
        "prop": rep["property"], "layer": rep["layer"], "mode": rep["mode"], "variant": rep.get("variant", ""),
        "hook_limit": rep.get("hook_limit"), "repo": repo, "scratch": scratch, "tier": "quick",
        "params": rep.get("params", {}), "base_seed": 0,
    }
    if rep.get("pair_hashseed"):
        # a hash-seed cross-check: run the same index under both hash seeds and compare the model digests
        recs = []
        for hs in ("0", str(rep["pair_hashseed"])):
            env2 = env_for(rep["mode"], rep.get("hook_limit"), scratch, tag + hs, hashseed=hs, extra=None)
            c2 = dict(cfg, action="range", start=rep["index"], stop=rep["index"] + 1, step=1, base_seed=rep["base_seed"],
                      budget_s=600, per_run=True)
            j2 = single_run_job(c2, env2, scratch, f"{tag}-hs{hs}")
            run_jobs([j2], 1)
            if j2.status != "ok" or not j2.result.get("per_run"):
                return rep, None, j2
            recs.append(j2.result["per_run"][0])
        differs = recs[0].get("model") != recs[1].get("model")
        rec = {"violation": {"sig": rep["signature"], "msg": f"model digests {recs[0].get('model')} vs {recs[1].get('model')}",
                             "detail": rep.get("decoded")} if differs else None, "harness_error": None, "values": [], "tape_digest": None}
        return rep, rec, j2
    if rep.get("tape") is None:
        # abnormal termination: no tape could be recorded; re-generate from the seed
        cfg.update(action="range", start=rep["index"], stop=rep["index"] + 1, step=1,
                   base_seed=rep["base_seed"], budget_s=600)
    else:
        cfg.update(action="replay", tape=rep["tape"])
    job = single_run_job(cfg, env, scratch, tag)
    run_jobs([job], 1)
    if job.status != "ok":
        return rep, None, job
    return rep, job.result, job
