"""Storage / reader / cancellation seams for C13 (and their fault plans).

* FsSeam      -- while active, ``tempfile.mkdtemp``, ``numpy.memmap`` (creation and
                 ``flush``), ``os.remove``, ``os.rmdir``, ``shutil.rmtree`` are wrappers that
                 count calls made *from library code* (caller frame under the tree being
                 checked) and raise OSError at the k-th such call.  ``tempfile.tempdir`` points
                 into the per-run sandbox.
* reader()    -- a real generator over items that raises, or ends early, at item j.
* Canceller   -- ``sys.settrace`` in the calling thread: raises SimCancel (a KeyboardInterrupt
                 subclass) at the n-th traced line of library code; never while an exception
                 is already propagating and never lexically inside a ``finally`` body.
"""
import ast
import errno
import os
import shutil
import sys
import tempfile

import numpy as np

IO_ERRORS = {
    "mkdtemp": [("ENOSPC", errno.ENOSPC), ("EACCES", errno.EACCES)],
    "memmap-create": [("ENOSPC", errno.ENOSPC), ("EIO", errno.EIO)],
    "memmap-flush": [("EIO", errno.EIO), ("ENOSPC", errno.ENOSPC)],
    "memmap-open": [("EIO", errno.EIO), ("EACCES", errno.EACCES)],
    "remove": [("EACCES", errno.EACCES), ("EBUSY", errno.EBUSY)],
    "rmdir": [("EACCES", errno.EACCES), ("EBUSY", errno.EBUSY)],
    "rmtree": [("EACCES", errno.EACCES), ("EBUSY", errno.EBUSY)],
}
CLEANUP_OPS = ("remove", "rmdir", "rmtree")


class SimCancel(KeyboardInterrupt):
    pass


class FsSeam:
    def __init__(self, roots, sandbox, fault_at=None, fault_choice=0):
        self.roots = tuple(roots)
        self.sandbox = sandbox
        self.fault_at = fault_at          # index (0-based) of the library I/O op to fail, or None
        self.fault_choice = fault_choice  # which errno among the candidates for that op kind
        self.ops = []                     # [(kind, path)]
        self.fired = None                 # (kind, errname, path)
        self.waived_paths = set()         # clean-up made to fail by us: leftover oracle waived for exactly these
        self._saved = {}

    # -- helpers
    def _from_lib(self, depth=2):
        f = sys._getframe(depth)
        return f.f_code.co_filename.startswith(self.roots)

    def _op(self, kind, path):
        idx = len(self.ops)
        self.ops.append((kind, str(path)))
        if self.fault_at is not None and idx == self.fault_at and self.fired is None:
            cands = IO_ERRORS[kind]
            name, num = cands[self.fault_choice % len(cands)]
            self.fired = (kind, name, str(path))
            if kind in CLEANUP_OPS:
                self.waived_paths.add(os.path.realpath(str(path)))
            raise OSError(num, f"simulated {name} on {kind}", str(path))

    def __enter__(self):
        seam = self
        self._saved = {
            "mkdtemp": tempfile.mkdtemp, "memmap": np.memmap, "remove": os.remove, "rmdir": os.rmdir,
            "rmtree": shutil.rmtree, "tempdir": tempfile.tempdir, "unlink": os.unlink,
        }
        real_mkdtemp, real_memmap, real_remove, real_rmdir, real_rmtree = (
            tempfile.mkdtemp, np.memmap, os.remove, os.rmdir, shutil.rmtree)

        def mkdtemp(suffix=None, prefix=None, dir=None):
            if seam._from_lib():
                seam._op("mkdtemp", dir or seam.sandbox)
            return real_mkdtemp(suffix=suffix, prefix=prefix, dir=dir)

        class SimMemmap(real_memmap):
            def flush(self):
                if seam._from_lib():
                    seam._op("memmap-flush", getattr(self, "filename", "?"))
                return real_memmap.flush(self)

        def memmap(filename, dtype=np.uint8, mode="r+", offset=0, shape=None, order="C"):
            if seam._from_lib():
                seam._op("memmap-create" if mode == "w+" else "memmap-open", filename)
            return SimMemmap(filename, dtype=dtype, mode=mode, offset=offset, shape=shape, order=order)

        def remove(path, *a, **k):
            if seam._from_lib():
                seam._op("remove", path)
            return real_remove(path, *a, **k)

        def rmdir(path, *a, **k):
            if seam._from_lib():
                seam._op("rmdir", path)
            return real_rmdir(path, *a, **k)

        def rmtree(path, *a, **k):
            if seam._from_lib():
                try:
                    seam._op("rmtree", path)
                except OSError:
                    if a and a[0] or k.get("ignore_errors"):
                        return None     # the caller asked to ignore errors: the tree stays (waived)
                    raise
            return real_rmtree(path, *a, **k)

        tempfile.mkdtemp = mkdtemp
        np.memmap = memmap
        os.remove = remove
        os.unlink = remove
        os.rmdir = rmdir
        shutil.rmtree = rmtree
        tempfile.tempdir = self.sandbox
        return self

    def __exit__(self, *exc):
        tempfile.mkdtemp = self._saved["mkdtemp"]
        np.memmap = self._saved["memmap"]
        os.remove = self._saved["remove"]
        os.unlink = self._saved["unlink"]
        os.rmdir = self._saved["rmdir"]
        shutil.rmtree = self._saved["rmtree"]
        tempfile.tempdir = self._saved["tempdir"]
        return False


def listing(root):
    out = []
    for d, dirs, files in os.walk(root):
        dirs.sort()
        rel = os.path.relpath(d, root)
        for x in dirs:
            out.append(("dir", os.path.normpath(os.path.join(rel, x))))
        for x in sorted(files):
            out.append(("file", os.path.normpath(os.path.join(rel, x))))
    return sorted(out)


def reader(items, fault=None, stats=None):
    """A real generator (the library checks isinstance(GeneratorType))."""
    for j, it in enumerate(items):
        if fault is not None and fault[1] == j:
            if stats is not None:
                stats["fired"] = fault
            if fault[0] == "raise":
                raise IOError(f"simulated reader failure at item {j}")
            return
        yield it


# ---------------------------------------------------------------- cancellation
_finally_cache = {}


def finally_lines(filename):
    """Line numbers lexically inside a ``finally:`` body or an ``except`` handler (clean-up code)."""
    if filename in _finally_cache:
        return _finally_cache[filename]
    lines = set()
    try:
        tree = ast.parse(open(filename).read())
        for node in ast.walk(tree):
            if isinstance(node, ast.Try):
                for stmt in list(node.finalbody) + [s for h in node.handlers for s in h.body]:
                    for ln in range(stmt.lineno, (stmt.end_lineno or stmt.lineno) + 1):
                        lines.add(ln)
    except Exception:
        pass
    _finally_cache[filename] = lines
    return lines


class LineCounter:
    """Counts traced line events of library code in the calling thread (and, optionally, cancels)."""

    def __init__(self, roots, cancel_at=None):
        self.roots = tuple(roots)
        self.cancel_at = cancel_at
        self.count = 0
        self.fired = None
        self._propagating = 0
        self._prev = None
        self._last = None

    def _local(self, frame, event, arg):
        if event == "line":
            n = self.count
            self.count = n + 1
            here = (id(frame), frame.f_lineno)
            repeat = here == self._last
            self._last = here
            # CPython 3.12: an exception raised by a trace function at a line event that repeats the previous
            # line of the same frame (the loop of an inlined comprehension) unwinds WITHOUT running the enclosing
            # finally blocks -- unlike a real KeyboardInterrupt.  Deliver the cancellation at the next line event
            # that is not such a repeat (checked with a stand-alone probe; see DESIGN 12.1).
            if self.cancel_at is not None and n >= self.cancel_at and self.fired is None and not repeat:
                fn = frame.f_code.co_filename
                if frame.f_lineno not in finally_lines(fn) and sys.exc_info()[0] is None:
                    self.fired = (os.path.basename(fn), frame.f_lineno, frame.f_code.co_name)
                    raise SimCancel(f"simulated cancellation at {self.fired}")
        return self._local

    def _global(self, frame, event, arg):
        # module-level frames are not counted: numba runs a few lines attributed to the library module the first time
        # a compiled function is specialised for a signature (and a lazy import runs module code), i.e. once per
        # process rather than per call -- counting them made the line count of a call depend on which runs the
        # process had executed before (found by the determinism sample of a seed sweep, VERIF_SEED=9, H-jit-ot #19)
        if event == "call" and frame.f_code.co_filename.startswith(self.roots) and frame.f_code.co_name != "<module>":
            return self._local
        return None

    def __enter__(self):
        self._prev = sys.gettrace()
        sys.settrace(self._global)
        return self

    def __exit__(self, *exc):
        sys.settrace(self._prev)
        return False
