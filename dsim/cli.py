"""./check <property> [--tier quick|thorough] | replay <file> | selftest determinism <property>"""
import argparse
import json
import os
import shutil
import sys
import time

from . import runner
from .common import jdump, sig_hash
from .plans import PLANS, RULES, COMPONENTS, ASSUMPTIONS, REQUIRED_PROBES

VERIF = runner.VERIF
REPLAY_DIR = os.environ.get("VERIF_REPLAY_DIR", os.path.join(VERIF, "out", "replays"))
EVIDENCE_DIR = os.environ.get("VERIF_EVIDENCE_DIR", os.path.join(VERIF, "evidence"))


def _repo():
    return os.path.realpath(os.environ.get("VERIF_REPO", "/repo"))


def _scale_plan(plan, jobs, budget_scale):
    out = []
    for it in plan:
        it = dict(it)
        it["workers"] = max(1, min(it["workers"], jobs))
        it["budget_s"] = int(it["budget_s"] * budget_scale)
        out.append(it)
    return out


def cmd_check(prop, tier):
    t0 = time.time()
    base_seed = int(os.environ.get("VERIF_SEED", "20260927"))
    njobs = int(os.environ.get("VERIF_JOBS", "16"))
    repo = _repo()
    scratch = runner.default_scratch()
    plan = PLANS[prop][tier]
    if os.environ.get("VERIF_BUDGET_S"):
        tot = max(it["budget_s"] for it in plan)
        scale = float(os.environ["VERIF_BUDGET_S"]) / tot
        plan = _scale_plan(plan, njobs, scale)
        for it in plan:
            it["runs"] = int(it["runs"] * max(1.0, scale))
    else:
        plan = _scale_plan(plan, njobs, 1.0)
    if os.environ.get("VERIF_RUNS_SCALE"):
        for it in plan:
            it["runs"] = max(it["workers"], int(it["runs"] * float(os.environ["VERIF_RUNS_SCALE"])))
    print(f"[dsim] property={prop} tier={tier} VERIF_SEED={base_seed} repo={repo} jobs={njobs} scratch={scratch}", flush=True)
    try:
        rc = _run_check(prop, tier, plan, base_seed, njobs, repo, scratch, t0)
    finally:
        shutil.rmtree(scratch, ignore_errors=True)
    return rc


def _run_check(prop, tier, plan, base_seed, njobs, repo, scratch, t0):
    known, fixed = runner.load_known()
    jobs = []
    by_item = {}
    pair_items = []
    det_items = []
    for it in list(plan):
        # determinism sample: the first k indices of every layer are run a second time in another process under
        # another PYTHONHASHSEED; tape / interleaving / outcome digests must be identical (else: harness error)
        if not it.get("pair_hashseed") and not it.get("no_det_sample"):
            k = max(4, min(40, it["runs"] // 100)) if not it.get("params", {}).get("big") else 2
            if "ngram" in it["name"]:
                k = 2
            it["per_run_upto"] = k
            det = dict(it, name=it["name"] + "@det", runs=k, workers=1, per_run=True, hashseed="9731")
            det_items.append((it["name"], det["name"]))
            jobs.extend(runner.make_range_jobs(det, prop, tier, base_seed, repo, scratch, prop))
    for it in plan:
        if it.get("pair_hashseed"):
            it = dict(it, per_run=True)
            alt = dict(it, name=it["name"] + "@hs", hashseed=it["pair_hashseed"])
            pair_items.append((it["name"], alt["name"], it))
            js2 = runner.make_range_jobs(alt, prop, tier, base_seed, repo, scratch, prop)
            jobs.extend(js2)
        js = runner.make_range_jobs(it, prop, tier, base_seed, repo, scratch, prop)
        by_item[it["name"]] = (it, js)
        jobs.extend(js)
    # heavier (jit, compile warm-up) first so that they overlap with the cheap ones
    jobs.sort(key=lambda j: -j.cfg["budget_s"])
    done = runner.run_jobs(jobs, njobs)

    harness_problems = []
    violations = []       # dicts with sig, msg, seed, index, tape, detail, cfg, env
    # --- abnormal terminations: attribute to the seed that was running, confirm alone (all confirmations and the
    # remainders of the dead workers' slices run in parallel; a remainder gets what is left of the layer's budget)
    extra_jobs = []
    dead = []
    for j in done:
        if j.status == "ok":
            continue
        bc = j.breadcrumb()
        tail = j.log_tail()
        if bc is None:
            harness_problems.append(f"worker {j.cfg['plan_name']} {j.status} (rc={getattr(j, 'rc', None)}) before any run; log tail:\n{tail}")
            continue
        idx, seed = bc
        print(f"[dsim] worker {j.cfg['plan_name']} {j.status} (rc={getattr(j, 'rc', None)}) at index {idx}; confirming alone", flush=True)
        cj = runner.single_run_job(j.cfg, j.env, scratch, f"confirm-{j.cfg['plan_name']}-{idx}-{os.path.basename(j.cfg['out'])}",
                                   start=idx, stop=idx + 1, step=1, hard_timeout=300, budget_s=280)
        rest = dict(j.cfg)
        rest["start"] = idx + j.cfg["step"]
        rj = None
        if rest["start"] < rest["stop"] and len(dead) < 6:
            rest["budget_s"] = max(30, int(j.cfg["budget_s"] * 0.5))
            rest["hard_timeout"] = rest["budget_s"] + 200
            rj = runner.Job(dict(rest, out=os.path.join(scratch, f"rest-{os.path.basename(j.cfg['out'])}")), j.env,
                            kill_after=rest["hard_timeout"] + 60)
        dead.append((j, idx, seed, tail, cj, rj))
    if dead:
        runner.run_jobs([d[4] for d in dead] + [d[5] for d in dead if d[5] is not None], njobs)
    for j, idx, seed, tail, cj, rj in dead:
        if cj.status == "ok":
            res = cj.result
            if res["violations"] or res["harness_errors"]:
                cj.cfg["plan_name"] = j.cfg["plan_name"]      # it did not die alone but produced something: take it
                extra_jobs.append(cj)
            else:
                harness_problems.append(f"worker {j.cfg['plan_name']} {j.status} at index {idx} (rc={getattr(j, 'rc', None)}) but the run alone "
                                        f"completed: non-reproducible abnormal termination; log tail:\n{tail}")
        else:
            what = "hung (killed by the watchdog)" if (cj.status == "killed" or getattr(cj, "rc", 0) == 1 and "Timeout" in cj.log_tail()) else "died"
            sig = f"{prop}|{j.cfg['layer']}-{j.cfg['mode']}|abnormal-termination"
            violations.append({"sig": sig, "msg": f"interpreter {what} (rc={getattr(j, 'rc', None)}) while running index {idx}; reproduced alone "
                                                  f"(rc={getattr(cj, 'rc', None)}); log tail: {tail[-600:]}",
                               "seed": seed, "index": idx, "tape": None, "detail": None,
                               "cfg": j.cfg, "env": _env_keys(j.env), "base_seed": base_seed})
        if rj is not None:
            if rj.status == "ok":
                extra_jobs.append(rj)
            else:
                print(f"[dsim] worker {j.cfg['plan_name']} failed again at {rj.breadcrumb()} after restart; its remaining slice is dropped", flush=True)
    ok_jobs = [j for j in done if j.status == "ok"] + extra_jobs

    # --- aggregate
    agg = {}
    for j in ok_jobs:
        r = j.result
        a = agg.setdefault(j.cfg["plan_name"], {"runs": 0, "wall_s": 0.0, "warmup_s": 0.0, "probes": {}, "faults": {},
                                                 "sched": {}, "digests": set(), "case_sigs": set(), "samples": [],
                                                 "truncated": False, "nontrivial": 0, "known_outcomes": {},
                                                 "harness_errors": [], "workers": 0})
        a["runs"] += r["runs"]
        a["workers"] += 1
        a["wall_s"] = max(a["wall_s"], r["wall_s"])
        a["warmup_s"] = max(a["warmup_s"], r["warmup_s"])
        a["truncated"] |= r["truncated"]
        a["nontrivial"] += r["nontrivial"]
        for k in ("probes", "faults", "sched", "known_outcomes"):
            for kk, vv in r[k].items():
                a[k][kk] = a[k].get(kk, 0) + vv
        a["digests"].update(r["digests"])
        a["case_sigs"].update(r["case_sigs"])
        if len(a["samples"]) < 3:
            a["samples"].extend(r["samples"][: 3 - len(a["samples"])])
        a["harness_errors"].extend(r["harness_errors"])
        for v in r["violations"]:
            v = dict(v)
            v["cfg"] = j.cfg
            v["env"] = _env_keys(j.env)
            v["base_seed"] = base_seed
            violations.append(v)

    # --- cross-check: same seeds under another PYTHONHASHSEED must give bit-identical fault-free models/outputs
    for name_a, name_b, it in pair_items:
        per = {}
        for j in ok_jobs:
            if j.cfg["plan_name"] in (name_a, name_b):
                for r in j.result.get("per_run", []):
                    per.setdefault(r["index"], {})[j.cfg["plan_name"]] = (r, j)
        n_cmp = 0
        for idx, d in sorted(per.items()):
            if name_a in d and name_b in d:
                ra, ja = d[name_a]
                rb, jb = d[name_b]
                if ra.get("model") is None or rb.get("model") is None:
                    continue
                n_cmp += 1
                if ra["model"] != rb["model"]:
                    violations.append({"sig": f"{prop}|{ra.get('family')}|result-depends-on-PYTHONHASHSEED",
                                       "msg": f"index {idx}: fault-free fitted state / outputs differ between PYTHONHASHSEED=0 and "
                                              f"PYTHONHASHSEED={it['pair_hashseed']} (digests {ra['model']} vs {rb['model']})",
                                       "seed": ra["seed"], "index": idx, "tape": None, "detail": {"pair_hashseed": it["pair_hashseed"]},
                                       "cfg": dict(ja.cfg, pair_hashseed=it["pair_hashseed"]), "env": _env_keys(ja.env), "base_seed": base_seed})
        if name_a in agg:
            agg[name_a]["probes"]["hashseed-pairs-compared"] = agg[name_a]["probes"].get("hashseed-pairs-compared", 0) + n_cmp
        # the @hs runs are the same seeds again: do not count them twice in the evidence
        agg.pop(name_b, None)

    # --- determinism sample
    det_compared = 0
    for name_a, name_b in det_items:
        per = {}
        for j in ok_jobs:
            if j.cfg["plan_name"] in (name_a, name_b):
                for r in j.result.get("per_run", []):
                    per.setdefault(r["index"], {})[j.cfg["plan_name"]] = (r["tape"], r["sched"], r["outcome"])
        for idx, d in sorted(per.items()):
            if name_a in d and name_b in d:
                if str(d[name_a][2]).startswith("V:") or str(d[name_b][2]).startswith("V:"):
                    # a run that ended in a violation stops where the library misbehaved; when the misbehaviour is
                    # itself non-reproducible (the ARPACK known finding) the two runs stop at different draws.
                    # Violations are triaged on their own (replayed in a fresh interpreter); not compared here.
                    continue
                det_compared += 1
                if d[name_a] != d[name_b]:
                    harness_problems.append(f"determinism sample: {name_a} index {idx} diverged between two processes / hash seeds: "
                                            f"{d[name_a]} vs {d[name_b]}")
        agg.pop(name_b, None)
    if det_items and agg:
        first = sorted(agg)[0]
        agg[first]["probes"]["determinism-sample-compared"] = det_compared

    for name, a in agg.items():
        for h in a["harness_errors"]:
            harness_problems.append(f"[{name}] index {h.get('index')} seed {h.get('seed')}: {h['kind']}: {h['msg']}\n{h.get('tb', '')}")

    # --- triage violations by class signature
    by_sig = {}
    for v in violations:
        by_sig.setdefault(v["sig"], []).append(v)
    known_met = {}
    new_lines = []
    nonrepro = []
    todo = []
    for sig, vs in sorted(by_sig.items()):
        if sig in known:
            known_met[sig] = len(vs)
            continue
        vs.sort(key=lambda v: (len(v["tape"]) if v["tape"] is not None else 10 ** 9, v["seed"]))
        todo.append((sig, vs))

    def triage_one(item):
        sig, vs = item
        # several instances of a class may exist; one that depends on what the worker had run before (state left in
        # the interpreter by earlier seeds) does not replay from its tape alone: try up to five candidates
        last = None
        for v in vs[:5]:
            last = triage_candidate(sig, vs, v)
            if last[0] == "ok":
                return last
        return last

    def triage_candidate(sig, vs, v):
        path = runner.write_replay(REPLAY_DIR, prop, v["cfg"], v["env"], v)
        rep = json.load(open(path))
        rep["base_seed"] = v["base_seed"]
        rep["occurrences_in_this_run"] = len(vs)
        jdump(rep, path)
        if v["tape"] is not None:
            _minimise(path, v, repo, scratch)
        elif v["cfg"].get("pair_hashseed"):
            rep = json.load(open(path))
            rep["pair_hashseed"] = v["cfg"]["pair_hashseed"]
            jdump(rep, path)
        # confirm in a fresh interpreter (up to 3 attempts: a violation whose manifestation depends on heap
        # contents -- uninitialised or out-of-bounds reads in compiled code -- is still a violation)
        for attempt in range(3):
            rep, rec, job = runner.replay_file(path, repo, scratch, tag=f"confirm-{sig_hash(sig)}-{attempt}")
            if _reproduces(rep, rec, job):
                return ("ok", sig, path, rep["message"], len(vs))
        return ("nonrepro", sig, path, None, len(vs))

    if todo:
        from concurrent.futures import ThreadPoolExecutor
        with ThreadPoolExecutor(max_workers=max(1, min(8, njobs // 2))) as ex:
            for status, sig, path, msg, n in ex.map(triage_one, todo):
                if status == "ok":
                    new_lines.append((sig, path, msg, n))
                else:
                    nonrepro.append((sig, path))

    # probes that must not be stuck at zero
    missing = []
    allp = {}
    for a in agg.values():
        for k in ("probes", "faults", "sched"):
            for kk, vv in a[k].items():
                allp[kk] = allp.get(kk, 0) + vv
    for p in REQUIRED_PROBES.get(prop, {}).get(tier, []):
        if allp.get(p, 0) == 0:
            missing.append(p)
    # --- evidence
    wall = time.time() - t0
    ev = _evidence(prop, tier, base_seed, agg, plan, wall, known_met, known, new_lines, harness_problems, fixed)
    os.makedirs(EVIDENCE_DIR, exist_ok=True)
    ev["coverage"]["required_probes_at_zero"] = missing
    jdump(ev, os.path.join(EVIDENCE_DIR, f"{prop}.json"))

    # --- report
    for name, a in sorted(agg.items()):
        print(f"[dsim] {name}: runs={a['runs']} workers={a['workers']} wall={a['wall_s']:.0f}s warmup={a['warmup_s']:.0f}s "
              f"nontrivial={a['nontrivial']} distinct={len(a['digests'] | a['case_sigs'])} truncated={a['truncated']}")
    for sig, n in sorted(known_met.items()):
        print(f"KNOWN-FINDING: property={prop} {known[sig]['what']} [{sig}] (met {n}x)")
    rc = 0
    truncated_any = any(a["truncated"] for a in agg.values())
    if missing and not new_lines:
        if truncated_any:
            # a slow / loaded machine cut some layers short: say so, but do not fail a run that found nothing
            print(f"[dsim] WARNING: probe counters at zero in a budget-truncated run: {missing}")
        else:
            harness_problems.append(f"probe counters stuck at zero: {missing}")
    if harness_problems:
        rc = 2
        print(f"[dsim] HARNESS-ERROR: {len(harness_problems)} problem(s)")
        for h in harness_problems[:10]:
            print("  " + h.replace("\n", "\n    "))
    for sig, path in nonrepro:
        rc = 2
        print(f"[dsim] HARNESS-ERROR: violation class {sig} did not reproduce from {path} in a fresh interpreter")
    for sig, path, msg, n in new_lines:
        rc = 1
        print(f"[dsim] violation class {sig} ({n}x): {msg}")
        print(f"VIOLATION property={prop} replay={path}")
    print(f"[dsim] {prop} {tier}: exit {rc} after {wall:.0f}s; evidence {os.path.join(EVIDENCE_DIR, prop + '.json')}")
    return rc


def _env_keys(env):
    keep = ("NUMBA_DISABLE_JIT", "VECTORIZERS_VERIF", "VECTORIZERS_VERIF_COO_QUICKSORT_LIMIT", "PYTHONHASHSEED",
            "NUMBA_NUM_THREADS")
    return {k: env[k] for k in keep if k in env}


def _minimise(path, v, repo, scratch):
    rep = json.load(open(path))
    cfg = dict(v["cfg"])
    cfg.update(action="shrink", tape=v["tape"], sig=v["sig"], repo=repo,
               shrink_budget_s=int(os.environ.get("VERIF_SHRINK_S", "60")), hard_timeout=600)
    env = runner.env_for(cfg["mode"], cfg.get("hook_limit"), scratch, "shrink", extra=None)
    env.update({k: val for k, val in v["env"].items()})
    job = runner.single_run_job(cfg, env, scratch, f"shrink-{sig_hash(v['sig'])}")
    runner.run_jobs([job], 1)
    if job.status == "ok" and job.result.get("violation") and job.result["violation"]["sig"] == v["sig"]:
        rep["tape"] = job.result["tape"]
        rep["kinds"] = job.result["kinds"]
        rep["minimised"] = True
        rep["original_tape_len"] = job.result["orig_len"]
        rep["shrink_evals"] = job.result["evals"]
        rep["message"] = job.result["violation"]["msg"]
        rep["decoded"] = job.result["violation"]["detail"]
        jdump(rep, path)


def _reproduces(rep, rec, job):
    if rep.get("tape") is None and not rep.get("pair_hashseed"):
        # abnormal termination replay: reproduces iff the process dies again
        return job.status != "ok"
    if rec is None:
        return False
    return bool(rec.get("violation")) and rec["violation"]["sig"] == rep["signature"]


def _evidence(prop, tier, base_seed, agg, plan, wall, known_met, known, new_lines, harness_problems, fixed):
    runs = sum(a["runs"] for a in agg.values())
    distinct = sum(len(a["digests"] | a["case_sigs"]) for a in agg.values())
    steps = sum(a["sched"].get("steps", 0) for a in agg.values())
    samples = []
    for name, a in sorted(agg.items()):
        for s in a["samples"][:2]:
            samples.append(dict(s, layer=name))
    faults = {}
    probes = {}
    for a in agg.values():
        for k, v in a["faults"].items():
            faults[k] = faults.get(k, 0) + v
        for k, v in a["probes"].items():
            probes[k] = probes.get(k, 0) + v
    per_layer = {}
    for name, a in sorted(agg.items()):
        per_layer[name] = {
            "runs": a["runs"], "workers": a["workers"], "wall_s": round(a["wall_s"], 1), "warmup_s": round(a["warmup_s"], 1),
            "runs_per_hour_this_layer": int(a["runs"] / max(a["wall_s"], 1e-9) * 3600),
            "nontrivial": a["nontrivial"], "distinct": len(a["digests"] | a["case_sigs"]),
            "truncated_by_budget": a["truncated"], "probes": a["probes"], "faults_fired": a["faults"],
            "scheduler": a["sched"], "outcomes_independent_of_config": a["known_outcomes"],
        }
    ev = {
        "property_id": prop, "tier": tier, "seed": base_seed, "level": "exploration",
        "coverage": {
            "evaluations": runs,
            "distinct_nontrivial": distinct,
            "rule": RULES[prop],
            "samples": samples if samples else [{"note": "no non-trivial sample recorded"}],
            "simulated_runs_per_hour": int(runs / max(wall, 1e-9) * 3600),
            "seeds_per_hour": int(runs / max(wall, 1e-9) * 3600),
            "simulated_time": {"unit": "scheduler steps (line events executed under the simulator); the library reads no clock",
                               "steps": steps},
            "fault_kinds_fired": faults,
            "path_probes": probes,
            "per_layer": per_layer,
            "components": COMPONENTS[prop],
            "known_findings_met": {s: {"count": n, "what": known[s]["what"]} for s, n in known_met.items()},
            "new_violation_classes": [{"signature": s, "replay": p, "count": n} for s, p, _, n in new_lines],
            "harness_problems": len(harness_problems),
            "fixed_entries_in_known_findings_file": fixed,
        },
        "assumptions": ASSUMPTIONS[prop],
        "wall_s": round(wall, 1),
        "violations": len(new_lines),
    }
    return ev


def cmd_replay(path):
    repo = _repo()
    scratch = runner.default_scratch()
    try:
        rep, rec, job = runner.replay_file(path, repo, scratch)
        prop = rep["property"]
        if rep.get("tape") is None and not rep.get("pair_hashseed"):
            if job.status != "ok":
                print(f"[dsim] replay of {path}: interpreter died again (rc={getattr(job, 'rc', None)})")
                print(f"VIOLATION property={prop} replay={path}")
                return 1
            print(f"[dsim] replay of {path}: run completed, abnormal termination did not reproduce")
            return 0
        if rec is None:
            print(f"[dsim] replay worker failed: {job.status}\n{job.log_tail()}")
            return 2
        if rec.get("violation"):
            v = rec["violation"]
            same = v["sig"] == rep["signature"]
            print(f"[dsim] replay of {path}: {v['sig']}: {v['msg']}")
            print(f"[dsim] decoded: {json.dumps(v.get('detail'), default=repr)}")
            print(f"[dsim] tape digest {rec.get('tape_digest')} ({len(rec.get('values', []))} draws); same class as recorded: {same}")
            print(f"VIOLATION property={prop} replay={path}")
            return 1
        if rec.get("harness_error"):
            print(f"[dsim] harness error during replay: {rec['harness_error']}")
            return 2
        print(f"[dsim] replay of {path}: no violation (property held on this schedule)")
        return 0
    finally:
        shutil.rmtree(scratch, ignore_errors=True)


def main(argv=None):
    ap = argparse.ArgumentParser(prog="check")
    ap.add_argument("what")
    ap.add_argument("rest", nargs="*")
    ap.add_argument("--tier", default=os.environ.get("VERIF_TIER", "quick"))
    args = ap.parse_args(argv)
    if args.what == "replay":
        return cmd_replay(args.rest[0])
    if args.what == "selftest":
        from . import selftest
        return selftest.main(args.rest, args.tier)
    if args.what in PLANS:
        return cmd_check(args.what, args.tier)
    ap.error(f"unknown command {args.what}")


if __name__ == "__main__":
    sys.exit(main())
