"""MANIFEST.setup_cmd: verify the offline environment; installs nothing."""
import importlib, os, sys
for m in ("numpy", "scipy", "sklearn", "numba", "dask", "pandas"):
    importlib.import_module(m)
os.makedirs("/verif/out/replays", exist_ok=True)
os.makedirs("/verif/evidence", exist_ok=True)
print("setup ok:", sys.version.split()[0])
